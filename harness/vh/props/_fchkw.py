"""FCHK object mapping (label <-> attribute tables) against ``Model/Fmt/FchkO.lean``: whole files through
``iodata.api.dump_one`` / ``load_one``; the model walks the writer / reader tables probed from the source.

The object carries the minimal basis of ``_fchk.py`` (one s primitive on atom 0, one restricted orbital); the fields of that
block are pass-through entries ``=<label>`` whose values ``skeleton()`` takes from the object (structure-level knowledge of
``dump_one`` restricted to this block, trusted).  Every other attribute goes through the tables.
"""

from __future__ import annotations

import numpy as np

from . import _formats as F
from ._adapters import Adapter
from ._fchk import BASES, CHARGE_KINDS, D, FCHK, LOTS, RUN_TYPES, enc_opt, enc_sci, rand_sci, sci_float, sci_quant  # noqa: F401

LEVELS = ["MP2", "MP3", "CC", "CI"]
LOTS_W = [*LOTS, "mp3", "CISD", "ccsd", "cimp2"]
RDM_KEYS = ["scf", "scf_spin", "post_scf_ao", "post_scf_spin_ao"]


def level_of(lot):
    lv = lot.upper() if lot is not None else "NA"
    for item in LEVELS:
        if item in lv:
            lv = item
    return lv


def tril(m):
    n = m.shape[0]
    return [m[i, j] for i in range(n) for j in range(i + 1)]


def skeleton(d):
    """the basis-set / orbital block and the counters derived from it, for the minimal-basis objects of this module"""
    sh = d.obasis.shells[0]
    q = lambda v: sci_quant(float(v))  # noqa: E731
    return [
        ("=Number of atoms", "i", d.natom), ("=Number of electrons", "i", int(d.nelec)), ("=Charge", "i", int(d.charge)),
        ("=Multiplicity", "i", 1), ("=Number of alpha electrons", "i", 1), ("=Number of beta electrons", "i", 1),
        ("=Number of basis functions", "i", 1), ("=Number of independent functions", "i", 1),
        ("=Number of contracted shells", "i", 1), ("=Number of primitive shells", "i", 1), ("=Pure/Cartesian d shells", "i", 0),
        ("=Pure/Cartesian f shells", "i", 0), ("=Highest angular momentum", "i", 0), ("=Largest degree of contraction", "i", 1),
        ("=Shell types", "I", [0]), ("=Number of primitives per shell", "I", [1]), ("=Shell to atom map", "I", [sh.icenter + 1]),
        ("=Primitive exponents", "R", [q(sh.exponents[0])]), ("=Contraction coefficients", "R", [q(sh.coeffs[0, 0])]),
        ("=Coordinates of each shell", "R", [q(v) for v in d.atcoords[sh.icenter]]),
        ("=Alpha Orbital Energies", "R", [q(d.mo.energies[0])]), ("=Alpha MO coefficients", "R", [q(d.mo.coeffs[0, 0])]),
    ]


def attrs_of(d):
    """the modelled attributes of an IOData object, quantised exactly: [(attr, kind, payload)]"""
    from iodata.utils import amu

    q = lambda v: sci_quant(float(v))  # noqa: E731
    out = [("atnums", "I", [int(z) for z in d.atnums]), ("atcorenums", "R", [q(v) for v in d.atcorenums]),
           ("atcoords", "R", [q(v) for v in d.atcoords.ravel()])]
    if d.atmasses is not None:
        out.append(("atmasses", "R", [q(v / amu) for v in d.atmasses]))
    if d.energy is not None:
        out.append(("energy", "r", q(d.energy)))
    for k, v in (d.atcharges or {}).items():
        out.append(("atcharges." + k, "R", [q(x) for x in v]))
    if d.atgradient is not None:
        out.append(("atgradient", "R", [q(v) for v in d.atgradient.ravel()]))
    sym = []
    if d.athessian is not None:
        sym.append(("athessian", d.athessian))
    for k, v in (d.moments or {}).items():
        out.append((f"moments.{k[0]}{k[1]}", "R", [q(x) for x in v]))
    for k, v in (d.extra or {}).items():
        if k == "polarizability_tensor":
            sym.append(("extra." + k, v))
    for k, v in (d.one_rdms or {}).items():
        sym.append(("one_rdms." + k, v))
    for a, m in sym:
        if m.ndim != 2 or m.shape[0] != m.shape[1] or not np.array_equal(m, m.T):
            out.append((a, "R", ["ASYM"]))
        else:
            out.append((a, "S", (m.shape[0], [q(v) for v in tril(m)])))
    return out


def enc_entry(e):
    a, k, p = e
    if k == "i":
        t = str(p)
    elif k == "r":
        t = enc_sci(p)
    elif k == "I":
        t = F.enc_list(p, str, "/")
    elif k == "R":
        t = F.enc_list(p, lambda x: x if isinstance(x, str) else enc_sci(x), "/")
    else:
        t = f"{p[0]}|" + F.enc_list(p[1], enc_sci, "/")
    return f"{F.enc_str(a)}:{k}:{t}"


class FchkW(Adapter):
    key = fmt = "fchk"

    def pick_natom(self, rng, i, thorough):
        return FCHK.pick_natom(rng, i, thorough)

    def gen(self, rng, natom, i):
        q, _, cls = FCHK.gen(rng, natom, i)
        q["lot"] = LOTS_W[(i // 2) % len(LOTS_W)]
        # all six charge kinds / none / a random subset
        if i % 5 == 0:
            q["charges"] = {k: [rand_sci(rng, D) for _ in range(natom)] for k, _ in CHARGE_KINDS}
        post = level_of(q["lot"]) in LEVELS
        keys = [k for k in RDM_KEYS if rng.random() < 0.5 and (post or not k.startswith("post"))]
        q["rdms"] = {k: rand_sci(rng, D) for k in keys}
        cls += f"/rdms={len(keys)}/level={level_of(q['lot']) if post else 'other'}/charges={len(q['charges'])}"
        return q, "-", cls

    def build(self, q, opts="-"):
        q2 = dict(q)
        q2["rdm"] = None
        d = FCHK.build(q2)
        if q["rdms"]:
            d.one_rdms = {k: np.array([[sci_float(v)]]) for k, v in q["rdms"].items()}
        return d

    def enc_obj(self, title, rt, lot, basis, entries):
        return ";".join([F.enc_str(title), enc_opt(rt), enc_opt(lot), enc_opt(basis), F.enc_list(entries, enc_entry)])

    def enc(self, q, data=None):
        n = len(q["atnums"])
        es = [("atnums", "I", list(q["atnums"])), ("atcorenums", "R", [sci_quant(float(c)) for c in q["corenums"]]),
              ("atcoords", "R", list(q["coords"]))]
        if q["masses"] is not None:
            es.append(("atmasses", "R", list(q["masses"])))
        if q["energy"] is not None:
            es.append(("energy", "r", q["energy"]))
        es += [("atcharges." + k, "R", list(v)) for k, v in q["charges"].items()]
        if q["gradient"] is not None:
            es.append(("atgradient", "R", list(q["gradient"])))
        if q["hessian"] is not None:
            es.append(("athessian", "S", (3 * n, list(q["hessian"]))))
        if q["dipole"] is not None:
            es.append(("moments.1c", "R", list(q["dipole"])))
        if q["quadrupole"] is not None:
            es.append(("moments.2c", "R", list(q["quadrupole"])))
        if q["polar"] is not None:
            es.append(("extra.polarizability_tensor", "S", (3, list(q["polar"]))))
        es += [("one_rdms." + k, "S", (1, [v])) for k, v in q["rdms"].items()]
        return self.enc_obj(q["title"], q["run_type"], q["lot"], q["basis"], es + skeleton(data if data is not None else self.build(q)))


FCHKW = FchkW()


def loaded_line(d):
    es = sorted(enc_entry(e) for e in attrs_of(d))
    return "ok " + ";".join([F.enc_str(d.title), enc_opt(d.run_type), F.enc_str(d.lot), enc_opt(d.obasis_name), ",".join(es) if es else "@"])


def corr(ctx, n, generations=1):
    ad = FCHKW
    rng = ctx.rng
    dreq, dimp, dcls, loads = [], [], [], []
    for i in range(n):
        q, opts, cls = ad.gen(rng, ad.pick_natom(rng, i, ctx.thorough), i)
        data = ad.build(q)
        r = F.real_dump(data, "fchk")
        dreq.append(f"fmtw dump fchk - {ad.enc(q, data)}")
        dimp.append("ok " + r.value.hex() if r.ok else "err DumpError")
        dcls.append(cls + ("" if r.ok else "/refused:" + r.err))
        if r.ok:
            loads.append((r.value, cls))
    ctx.corr("dump:fchk-objects", dreq, dimp, None, dcls)
    lreq, limp, lcls, second = [], [], [], []
    for raw, cls in loads:
        r = F.real_load(raw, "fchk")
        lreq.append(f"fmtw load fchk - {raw.hex()}")
        limp.append(loaded_line(r.value) if r.ok else "err " + r.err)
        lcls.append(cls)
        if r.ok and generations > 1:
            second.append((r.value, cls))
    ctx.corr("load:fchk-objects", lreq, limp, None, lcls)
    if generations > 1:
        g2req, g2imp, g2cls = [], [], []
        for d, cls in second:
            r = F.real_dump(d, "fchk")
            g2req.append("fmtw dump fchk - " + ad.enc_obj(d.title, d.run_type, d.lot, d.obasis_name, attrs_of(d) + skeleton(d)))
            g2imp.append("ok " + r.value.hex() if r.ok else "err DumpError")
            g2cls.append(cls)
        ctx.corr("dump-gen2:fchk-objects", g2req, g2imp, None, g2cls)


def correspond(ctx):
    if ctx.prop == "C15":
        corr(ctx, ctx.n(150, 600), generations=2)
    else:
        corr(ctx, ctx.n(400, 1500))


# ---------------------------------------------------------------------------------------------
# search: a post-SCF density whose label cannot name the method (lot absent or without MP2 / MP3 / CC / CI)

UNLABELLED_LOTS = [None, "hf", "B3LYP", "rhf/6-31g", "pbe0"]


def postscf_eval(lot, keys):
    """a post-SCF density written for a level of theory the label cannot name must not be lost silently: either the writer
    refuses the object before anything is written (PrepareDumpError) or the reload holds the matrix; returns (sig, what) or None"""
    q, _, _ = FCHKW.gen(__import__("random").Random(7), 2, 0)
    q["lot"] = lot
    q["rdms"] = {k: (False, 123456789 + j, 0) for j, k in enumerate(keys)}
    x = FCHKW.build(q)
    r = F.real_dump(x, "fchk")
    if not r.ok:
        return None if r.err == "PrepareDumpError" else ("fchk-w:post-scf:refused:" + r.err, f"FCHK: unexpected refusal {r.exc!r}")
    l = F.real_load(r.value, "fchk")
    if not l.ok:
        return ("fchk-w:post-scf:reload-fails", "FCHK: file with a post-SCF density cannot be read back")
    lost = [k for k in keys if k not in (l.value.one_rdms or {})]
    if lost:
        return ("fchk-w:post-scf-density-dropped", f"FCHK: one_rdms[{lost[0]!r}] written for lot={lot!r} is silently dropped on reload")
    return None


def search(ctx):
    if ctx.prop != "C02":
        return
    for lot in UNLABELLED_LOTS:
        for keys in (["post_scf_ao"], ["post_scf_spin_ao"], ["post_scf_ao", "post_scf_spin_ao"], ["scf", "post_scf_ao"]):
            res = postscf_eval(lot, keys)
            ctx.count("search:fchk-postscf", [lot, keys], f"lot={lot}/keys={len(keys)}" + ("" if res is None else "/FAIL"))
            if res:
                ctx.fail(res[0], res[1], {"kind": "c02", "format": "fchk-postscf", "spec": {"lot": lot, "keys": keys}})


class _ReplayPost:
    def replay(self, inp):
        return postscf_eval(inp["spec"]["lot"], inp["spec"]["keys"]) is not None


REPLAY = {"fchk-postscf": _ReplayPost()}
