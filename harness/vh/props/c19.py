"""C19 — generated Gaussian/ORCA input files describe the molecule they were generated from."""

from __future__ import annotations

import ast
import itertools
import os
import tempfile
from fractions import Fraction

import numpy as np

from ..engine import REPO, lean_list

MODULES = ["Iodata.Props.C19"]
RULE = (
    "input: molecules of 1-200 atoms over all elements 1-118 (each element at least once per run), coordinates built "
    "from integers k (|k| < 10^10, unit 1e-6 angstrom) as float(k/1e6)*angstrom, charge/spin polarisation dyadic "
    "rationals incl. absent, exact halves (ties) and negative values, optional title/lot/obasis_name/run_type incl. "
    "empty strings, upper-case and unknown run types, both programs + unknown program names, default template and "
    "random templates over any subset of the fields with '{{'/'}}' escapes, unknown fields, unbalanced braces, keyword "
    "arguments overriding any field (str/int values); 0-atom objects; scripted atom_line callbacks given as a table "
    "iatom -> behaviour (return a literal text incl. braces, embedded/trailing newlines, empty and 1000-character strings, "
    "a str-subclass instance, the program's default line, a text computed from the object; return a non-str object "
    "None/int/bytes/list/float/tuple; raise one of 24 Exception subclasses incl. iodata's own error classes and a user "
    "class; raise KeyboardInterrupt/SystemExit/GeneratorExit/a user BaseException subclass) at every atom position, "
    "tables shorter/longer than the molecule, combined with unknown programs, unknown run types, unknown elements, bad "
    "templates and a 'geometry' keyword argument; each call on a fresh path that either does not exist or holds "
    "sentinel content.  Compared with the model: exception class (Pass:<class> for a BaseException that propagates), the "
    "file state afterwards (absent / old content / byte-exact new content) and the list of iatom values the callback "
    "was called with.  non-trivial = request distinct and (callback or custom template or kwargs or non-default object "
    "fields or >1 atom)"
)
TRUSTED = [
    "extraction of default templates (module attribute), run-type keyword maps/defaults and the atom-line f-string "
    "layout (ast) from iodata/inputs/gaussian.py and orca.py; num2sym from iodata.periodic",
]
ASSUMPTIONS = [
    "str.format is modelled for templates whose replacement fields are plain names ('{name}', '{{', '}}'); conversions, "
    "format specs, attribute/index access and fields holding arrays are outside the model and never generated in the "
    "correspondence (the failure injection of the search does use them); text returned by a callback is inserted "
    "verbatim (str.format is single-pass), which the model and the byte comparison both cover",
    "coordinates are carried as integers k = round(x/angstrom*1e6); for |k| < 10^10 the binary64 value "
    "float(k/1e6)*angstrom/angstrom is within 3 ulp of k/1e6, far from a rounding boundary of '%.6f', so CPython's "
    "correctly rounded '%.6f' prints exactly k (checked implicitly by the byte comparison)",
    "charge and spinpol reach the writer as the binary64 values read back from the IOData object; the harness sends "
    "exactly those values to the model as rationals",
    "an atom_line callback is modelled as a deterministic function (object, iatom) -> str | non-str | raises(class), "
    "for ALL such functions in the theorems and for the scripted tables in the correspondence; callbacks that modify "
    "the IOData object, depend on call history, or write to the output file themselves are outside the model",
    "exceptions are classified only as Exception-subclass or BaseException-only (what `except Exception` sees); "
    "an exception raised while the file is being closed or by print() itself (I/O errors) is not modelled",
]
PROGRAMS = ["gaussian", "orca"]


def _chars(s):
    out = []
    for c in s:
        if 32 < ord(c) < 127 and c not in "'\\":
            out.append(f"'{c}'")
        elif c == "'":
            out.append("'\\''")
        elif c == "\\":
            out.append("'\\\\'")
        elif c == "\n":
            out.append("'\\n'")
        elif c == " ":
            out.append("' '")
        else:
            out.append(f"Char.ofNat {ord(c)}")
    return "[" + ",".join(out) + "]"


def _program_info(name):
    """(template, keywords, default lot, default basis, default run type, atom-line layout, unit op)"""
    import importlib

    mod = importlib.import_module("iodata.inputs." + name)
    tree = ast.parse((REPO / "iodata" / "inputs" / f"{name}.py").read_text())
    funcs = {n.name: n for n in tree.body if isinstance(n, ast.FunctionDef)}
    wi = funcs["write_input"]
    kw = None
    defaults = {}
    for node in ast.walk(wi):
        if isinstance(node, ast.Assign) and len(node.targets) == 1 and isinstance(node.targets[0], ast.Name):
            tname = node.targets[0].id
            if tname.endswith("_keywords") and isinstance(node.value, ast.Dict):
                kw = [(ast.literal_eval(k), ast.literal_eval(v)) for k, v in zip(node.value.keys, node.value.values)]
            if tname == "fields" and isinstance(node.value, ast.Dict):
                for k, v in zip(node.value.keys, node.value.values):
                    key = ast.literal_eval(k)
                    # data.X or "default"   |   <kw>[(data.run_type or "energy").lower()]
                    if isinstance(v, ast.BoolOp) and isinstance(v.op, ast.Or) and isinstance(v.values[1], ast.Constant):
                        defaults[key] = (ast.unparse(v.values[0]), v.values[1].value)
                    elif isinstance(v, ast.Subscript):
                        inner = v.slice
                        if not (isinstance(inner, ast.Call) and isinstance(inner.func, ast.Attribute) and inner.func.attr == "lower"):
                            raise ValueError(f"{name}: run_type expression changed: {ast.unparse(v)}")
                        bo = inner.func.value
                        defaults[key] = (ast.unparse(bo.values[0]), bo.values[1].value)
                    else:
                        raise ValueError(f"{name}: unexpected field expression {ast.unparse(v)}")
    if kw is None or set(defaults) != {"lot", "obasis_name", "run_type"}:
        raise ValueError(f"{name}: could not find keyword map / defaults")
    if [defaults[k][0] for k in ("lot", "obasis_name", "run_type")] != ["data.lot", "data.obasis_name", "data.run_type"]:
        raise ValueError(f"{name}: defaults read other attributes: {defaults}")
    al = funcs["default_atom_line"]
    ret = [n for n in ast.walk(al) if isinstance(n, ast.Return)][0].value
    if not isinstance(ret, ast.JoinedStr):
        raise ValueError(f"{name}: default_atom_line does not return an f-string")
    layout = []
    for part in ret.values:
        if isinstance(part, ast.Constant):
            layout.append(part.value)
        else:
            spec = "".join(p.value for p in part.format_spec.values) if part.format_spec else ""
            layout.append("{" + ast.unparse(part.value) + ":" + spec + "}")
    unit = None
    sym = None
    for node in ast.walk(al):
        if isinstance(node, ast.Assign) and isinstance(node.targets[0], ast.Name):
            if node.targets[0].id == "atcoord":
                unit = ast.unparse(node.value)
            if node.targets[0].id == "symbol":
                sym = ast.unparse(node.value)
    return mod.default_template, kw, defaults["lot"][1], defaults["obasis_name"][1], defaults["run_type"][1], layout, unit, sym


def translate(ctx):
    from iodata.api import INPUT_MODULES
    from iodata.periodic import num2sym

    body = ["import Iodata.Model.Inputs", "namespace Iodata.Gen.Inputs", "open Iodata.Inputs", ""]
    body.append("/-- `iodata.periodic.num2sym` -/")
    body.append("def num2sym : List (Nat × List Char) :=\n  ["
                + ", ".join(f"({int(k)}, {_chars(v)})" for k, v in num2sym.items()) + "]\n")
    progs = []
    layouts = []
    for name in INPUT_MODULES:
        t, kw, dl, db, dr, layout, unit, sym = _program_info(name)
        progs.append(f"⟨{_chars(name)},\n    {_chars(t)},\n    {lean_list(kw, lambda e: f'({_chars(e[0])}, {_chars(e[1])})')},\n"
                     f"    {_chars(dl)}, {_chars(db)}, {_chars(dr)}⟩")
        layouts.append(f"({_chars(name)}, {lean_list(layout, _chars)}, {_chars(unit or '?')}, {_chars(sym or '?')})")
    body.append("/-- `INPUT_MODULES` in dict order: name, default template, run-type keywords, defaults for lot / basis / run type -/")
    body.append("def programs : List Program :=\n  [" + ",\n   ".join(progs) + "]\n")
    body.append("/-- per program: pieces of the f-string returned by `default_atom_line`, the expression assigned to "
                "`atcoord`, the expression assigned to `symbol` -/")
    body.append("def atomLineLayout : List (List Char × List (List Char) × List Char × List Char) :=\n  ["
                + ",\n   ".join(layouts) + "]\n")
    body.append("end Iodata.Gen.Inputs\n")
    ctx.gen_write("Inputs", "\n".join(body))


# --------------------------------------------------------------------------- T2
def _enc(s):
    return ",".join(str(ord(c)) for c in s) if s else "@"


def _enc_opt(s):
    return "-" if s is None else _enc(s)


def _enc_fr(fr):
    return "-" if fr is None else (str(fr.numerator) if fr.denominator == 1 else f"{fr.numerator}/{fr.denominator}")


def _enc_kwargs(kw):
    if not kw:
        return "@"
    return ";".join(f"{k}~s~{_enc(v)}" if isinstance(v, str) else f"{k}~i~{v}" for k, v in kw.items())


def _exc_class(exc):
    n = type(exc).__name__
    if n in ("TypeError", "ValueError", "LoadError", "PrepareDumpError", "DumpError", "FileFormatError", "WriteInputError"):
        return n
    return "Other:" + n


# --------------------------------------------------------------------------- scripted callbacks
class _Custom(Exception):
    pass


class _CustomBase(BaseException):
    pass


class _StrSub(str):
    pass


def _iodata_exc(name):
    def make():
        import iodata.utils as u

        return getattr(u, name)("x", "f.in")
    return make


# instances of (subclasses of) Exception: every one must surface as WriteInputError
EXC = {
    "ZeroDivisionError": lambda: ZeroDivisionError("x"), "RuntimeError": lambda: RuntimeError("x"),
    "AttributeError": lambda: AttributeError("x"), "OSError": lambda: OSError("x"),
    "AssertionError": lambda: AssertionError("x"), "Custom": lambda: _Custom("x"), "KeyError": lambda: KeyError("x"),
    "IndexError": lambda: IndexError("x"), "TypeError": lambda: TypeError("x"), "ValueError": lambda: ValueError("x"),
    "FloatingPointError": lambda: FloatingPointError("x"),
    "UnicodeDecodeError": lambda: UnicodeDecodeError("a", b"", 0, 1, "x"), "StopIteration": lambda: StopIteration(),
    "MemoryError": lambda: MemoryError(), "NotImplementedError": lambda: NotImplementedError("x"),
    "RecursionError": lambda: RecursionError("x"), "PermissionError": lambda: PermissionError("x"),
    "OverflowError": lambda: OverflowError("x"), "UserWarning": lambda: UserWarning("x"),
    "Exception": lambda: Exception("x"),
    "WriteInputError": _iodata_exc("WriteInputError"), "FileFormatError": _iodata_exc("FileFormatError"),
    "LoadError": _iodata_exc("LoadError"), "DumpError": _iodata_exc("DumpError"),
}
# BaseException but not Exception: `except Exception` does not catch them, they propagate unchanged
BASE = {
    "KeyboardInterrupt": lambda: KeyboardInterrupt(), "SystemExit": lambda: SystemExit(3),
    "GeneratorExit": lambda: GeneratorExit(), "CustomBase": lambda: _CustomBase("x"),
}
NONSTR = {"None": None, "int": 7, "bytes": b"ab", "list": ["x"], "float": 1.5, "tuple": ("a",)}
CB_TEXTS = ["", " ", "X", "{lot}", "{", "}", "{{}}", "{geometry}", "{0}", "}{", "a\nb", "\n", "tail\n", "\nhead", "\n\n",
            "\tH 0 0 0", "H   0.000000   0.000000   0.000000", "*", "$end", "x" * 1000]
SENTINEL = "\x00OLD\x00"


def make_callback(case):
    """(closure, list of iatom values it was called with, list of exception instances it raised)"""
    import importlib

    table = case["cb"]
    calls, raised = [], []
    mod = importlib.import_module("iodata.inputs." + case["prog"]) if case["prog"] in PROGRAMS else None

    def atom_line(data, iatom):
        calls.append(int(iatom))
        e = table[iatom]  # IndexError outside the table
        kind = e[0]
        if kind == "L":
            return e[1]
        if kind == "S":
            return _StrSub(e[1])
        if kind in "EB":
            exc = (EXC if kind == "E" else BASE)[e[1]]()
            raised.append(exc)
            raise exc
        if kind == "N":
            return NONSTR[e[1]]
        if kind == "D":
            return mod.default_atom_line(data, iatom)
        return f"{int(data.atnums[iatom])}:{iatom}"  # "Z": depends on the object

    return atom_line, calls, raised


def _enc_cb(table):
    if table is None:
        return "-"
    if not table:
        return "@"
    return ";".join(e[0] + (_enc(e[1]) if e[0] in "LS" else e[1] if len(e) > 1 else "") for e in table)


def cb_outcome(case):
    """What the property demands of a scripted callback on an object whose run type is valid, derived from the table
    alone: ("raise", k, status) | ("nonstr", natom, status) | ("lines", natom, [text | None for a default line])."""
    table, natom = case["cb"], len(case["atoms"])
    for i in range(natom):
        e = table[i] if i < len(table) else ("E", "IndexError")
        if e[0] == "E":
            return "raise", i + 1, "err WriteInputError"
        if e[0] == "B":
            return "raise", i + 1, "err Pass:" + e[1]
        if e[0] == "D" and not 1 <= case["atoms"][i][0] <= 118:
            return "raise", i + 1, "err WriteInputError"
    if any(table[i][0] == "N" for i in range(natom)):
        return "nonstr", natom, "err WriteInputError"
    lines = []
    for i in range(natom):
        e = table[i]
        lines.append(e[1] if e[0] in "LS" else None if e[0] == "D" else f"{case['atoms'][i][0]}:{i}")
    return "lines", natom, lines


def cb_class(case):
    if case.get("cb") is None:
        return "cb:none"
    kind, n, x = cb_outcome(case)
    if kind == "raise":
        pos = "first" if n == 1 else "last" if n == len(case["atoms"]) else "mid"
        return "cb:raise-" + ("base" if x.startswith("err Pass") else "exc") + "@" + pos
    if kind == "nonstr":
        return "cb:nonstr"
    return "cb:lines" + ("+nl" if any(l and "\n" in l for l in x) else "") + ("+brace" if any(l and ("{" in l or "}" in l) for l in x) else "")


def _rand_entry(rng, natom_known=True):
    r = rng.random()
    if r < 0.45:
        return ["L" if rng.random() < 0.85 else "S", rng.choice(CB_TEXTS) if rng.random() < 0.6 else _rand_text(rng, rng.randint(0, 12), LIT + "{}")]
    if r < 0.6:
        return ["D"]
    if r < 0.7:
        return ["Z"]
    if r < 0.82:
        return ["E", rng.choice(sorted(EXC))]
    if r < 0.9:
        return ["B", rng.choice(sorted(BASE))]
    return ["N", rng.choice(sorted(NONSTR))]


def _rand_table(rng, natom):
    style = rng.random()
    if style < 0.45:  # all calls return text: the geometry is the join
        table = [e for e in (_rand_entry(rng) for _ in range(4 * natom + 8)) if e[0] in "LSDZ"][:natom]
    elif style < 0.75:  # one decisive failure at a chosen atom, text elsewhere
        table = [e for e in (_rand_entry(rng) for _ in range(4 * natom + 8)) if e[0] in "LSDZ"][:natom]
        if natom:
            table[rng.randrange(natom)] = rng.choice([["E", rng.choice(sorted(EXC))], ["B", rng.choice(sorted(BASE))],
                                                      ["N", rng.choice(sorted(NONSTR))]])
    else:
        table = [_rand_entry(rng) for _ in range(natom)]
    r = rng.random()
    if r < 0.05 and natom:
        table = table[:-1]  # table[natom-1] raises IndexError in the closure
    elif r < 0.1:
        table = table + [_rand_entry(rng)]  # never used
    return table


def build(case):
    """IOData object for a case dict (atoms are (Z, kx, ky, kz) with k in 1e-6 angstrom)"""
    from iodata import IOData
    from iodata.utils import angstrom

    atoms = case["atoms"]
    kw = {
        "atnums": np.array([a[0] for a in atoms], dtype=int),
        "atcoords": np.array([[k / 1e6 * angstrom for k in a[1:]] for a in atoms], dtype=float).reshape(len(atoms), 3),
    }
    for name in ("title", "lot", "obasis_name", "run_type"):
        if case.get(name) is not None:
            kw[name] = case[name]
    if case.get("charge") is not None:
        kw["charge"] = float(Fraction(case["charge"]))
    if case.get("spinpol") is not None:
        kw["spinpol"] = float(Fraction(case["spinpol"]))
    if case.get("mo"):
        # charge and spin polarisation derived from orbital occupations (they cannot be assigned then)
        from iodata.orbitals import MolecularOrbitals

        kind, oa, ob = case["mo"]
        oa = [float(Fraction(x)) for x in oa]
        ob = [float(Fraction(x)) for x in ob]
        kw.pop("charge", None)
        kw.pop("spinpol", None)
        if kind == "unrestricted":
            kw["mo"] = MolecularOrbitals("unrestricted", len(oa), len(ob), occs=np.array(oa + ob))
        else:
            kw["mo"] = MolecularOrbitals("restricted", len(oa), len(oa), occs=np.array(oa) + np.array(ob),
                                         occs_aminusb=np.array(oa) - np.array(ob))
    return IOData(**kw)


def run_impl(case, data=None):
    """(status, text, file state, calls) of api.write_input on the real code.

    status: "ok" | "err <class>" | "err Pass:<class>" (a BaseException raised by the scripted callback came through);
    file state: "absent" | "old" (still the content it had before the call) | "f=<content>";
    calls: list of the iatom values the scripted callback received, None without a callback."""
    from iodata.api import write_input

    data = data if data is not None else build(case)
    extra = {}
    calls, raised = None, []
    if case.get("cb") is not None:
        extra["atom_line"], calls, raised = make_callback(case)
    with tempfile.TemporaryDirectory(prefix="c19-") as tmp:
        path = os.path.join(tmp, "input.in")
        if case.get("pre"):
            with open(path, "w") as fh:
                fh.write(SENTINEL)
        try:
            write_input(data, path, case["prog"], template=case.get("template"), **extra, **(case.get("kwargs") or {}))
            st = "ok"
        except Exception as exc:
            st = "err " + _exc_class(exc)
        except BaseException as exc:
            if not any(exc is r for r in raised):
                raise  # not ours (a real Ctrl-C)
            st = "err Pass:" + next(k for k, v in BASE.items() if type(v()) is type(exc))
        if not os.path.exists(path):
            return st, None, "absent", calls
        with open(path, newline="") as fh:
            content = fh.read()
        return st, (content if st == "ok" else None), ("old" if content == SENTINEL else "f=" + _enc(content)), calls


def response(st, fstate, calls):
    return f"{st} {fstate} " + ("-" if calls is None else "c=" + (",".join(str(i) for i in calls) or "@"))


def request(case, data):
    ch = None if data.charge is None else Fraction(float(data.charge))
    sp = None if data.spinpol is None else Fraction(float(data.spinpol))
    atoms = ";".join(":".join(str(x) for x in a) for a in case["atoms"]) or "@"
    return " ".join(["input", _enc(case["prog"]), atoms, _enc_opt(case.get("title")), _enc_opt(case.get("lot")),
                     _enc_opt(case.get("obasis_name")), _enc_opt(case.get("run_type")), _enc_fr(ch), _enc_fr(sp),
                     _enc_opt(case.get("template")), _enc_kwargs(case.get("kwargs")), _enc_cb(case.get("cb")),
                     "1" if case.get("pre") else "0"])


FIELDS = ["title", "lot", "obasis_name", "run_type", "charge", "spinmult", "geometry"]
LIT = " \n#!*/=-+,;0123456789abcxyz()%"


def _rand_text(rng, n, alphabet=LIT):
    return "".join(rng.choice(alphabet) for _ in range(n))


def _rand_template(rng, extra_names):
    pieces = []
    bad = rng.random() < 0.2
    for _ in range(rng.randint(0, 10)):
        r = rng.random()
        if r < 0.35:
            pieces.append(_rand_text(rng, rng.randint(0, 8)))
        elif r < 0.75:
            pieces.append("{" + rng.choice(FIELDS + extra_names) + "}")
        elif r < 0.85:
            pieces.append(rng.choice(["{{", "}}", "{{}}", "{{{lot}}}"]))
        elif bad:
            pieces.append(rng.choice(["{", "}", "{}", "{0}", "{nokey}", "{ lot}", "{lot", "title}", "{lot{title}}"]))
    return "".join(pieces)


def _rand_charge(rng):
    r = rng.random()
    if r < 0.25:
        return None
    if r < 0.45:
        return Fraction(rng.randint(-4, 4))
    if r < 0.7:
        return Fraction(2 * rng.randint(-6, 6) + 1, 2)  # exact ties: half-to-even decides
    return Fraction(rng.randint(-5 * 2**12, 5 * 2**12), 2**12)


def _rand_mo(rng):
    """(kind, alpha occupations, beta occupations) as strings of dyadic rationals; same length for restricted."""
    norb = rng.randint(1, 9)
    na = rng.randint(0, norb)
    nb = rng.randint(0, norb)
    oa = [Fraction(1)] * na + [Fraction(0)] * (norb - na)
    ob = [Fraction(1)] * nb + [Fraction(0)] * (norb - nb)
    if rng.random() < 0.4:  # fractional occupations, incl. exact halves of the total difference
        for o in (oa, ob):
            o[rng.randrange(norb)] = Fraction(rng.randint(0, 8), 8)
    kind = rng.choice(["restricted", "unrestricted"])
    if kind == "unrestricted" and rng.random() < 0.5:
        ob = ob[: rng.randint(1, norb)]
    return [kind, [str(x) for x in oa], [str(x) for x in ob]]


def _rand_case(rng, natom=None):
    n = natom or rng.choice([1, 1, 2, 3, 5, 8, 13, 30])
    atoms = []
    for _ in range(n):
        z = rng.randint(1, 118)
        kmax = rng.choice([10**3, 10**6, 10**7, 10**9, 10**10 - 1])
        atoms.append((z, *(rng.choice([0, 1, -1, rng.randint(-kmax, kmax)]) if rng.random() < 0.15 else rng.randint(-kmax, kmax)
                           for _ in range(3))))
    case = {"prog": rng.choice(PROGRAMS), "atoms": atoms}
    if rng.random() < 0.5:
        case["title"] = rng.choice(["", "water", "Title with {braces} and }{", "two\nlines", " x ", _rand_text(rng, 12)])
    if rng.random() < 0.5:
        case["lot"] = rng.choice(["", "B3LYP", "hf", "MP2", "ccsd(t)"])
    if rng.random() < 0.5:
        case["obasis_name"] = rng.choice(["", "6-31G*", "cc-pVDZ", "def2-TZVP"])
    if rng.random() < 0.6:
        case["run_type"] = rng.choice(["", "energy", "energy_force", "opt", "scan", "freq", "ENERGY", "Opt", "FREQ", "Energy_Force",
                                       "md", "unknown", "sp", " opt"])
    case["charge"] = _rand_charge(rng)
    case["spinpol"] = _rand_charge(rng)
    for k in ("charge", "spinpol"):
        case[k] = None if case[k] is None else str(case[k])
    if rng.random() < 0.2:
        case["mo"] = _rand_mo(rng)
    r = rng.random()
    extra = []
    if r < 0.5:
        kw = {}
        for _ in range(rng.randint(1, 4)):
            name = rng.choice(FIELDS + ["nproc", "memory", "extra_kw", "X"])
            kw[name] = rng.randint(-3, 40) if rng.random() < 0.4 else rng.choice(["", "val", "{lot}", "}{", "a b", "1"])
        case["kwargs"] = kw
        extra = [k for k in kw if k not in FIELDS]
    if rng.random() < 0.55:
        case["template"] = _rand_template(rng, extra + ["nproc"])
    if rng.random() < 0.35:
        case["cb"] = _rand_table(rng, n)
        if rng.random() < 0.25:  # elements without a symbol are fine when the default line is never asked for
            case["atoms"][rng.randrange(n)] = (rng.choice([0, 119, 250]), 1, 2, 3)
    if rng.random() < 0.4:
        case["pre"] = True
    return case


def _cases(ctx):
    rng = ctx.rng
    cases = []
    # every element once, both programs, default everything
    for prog in PROGRAMS:
        cases.append(({"prog": prog, "atoms": [(z, 1000 * z, -z, 123456789) for z in range(1, 119)]}, "all-elements"))
    for z in (0, 119, 200):
        cases.append(({"prog": "gaussian", "atoms": [(1, 0, 0, 0), (z, 1, 2, 3)]}, "unknown-element"))
    for prog in ["Gaussian", "", "orca ", "xyz", "molden", "common"]:
        cases.append(({"prog": prog, "atoms": [(1, 0, 0, 0)]}, "unknown-program"))
    for prog in PROGRAMS:
        for rt in [None, "", "energy", "energy_force", "opt", "scan", "freq", "ENERGY", "Freq", "nope"]:
            c = {"prog": prog, "atoms": [(8, 0, 0, 0), (1, 957200, 0, 0)]}
            if rt is not None:
                c["run_type"] = rt
            cases.append((c, "every-run-type"))
        for ch in ["1/2", "-1/2", "3/2", "5/2", "-5/2", "2251799813685249/4503599627370496", "0", "-1", None]:
            for which in ("charge", "spinpol"):
                c = {"prog": prog, "atoms": [(8, 0, 0, 0)], which: ch}
                cases.append((c, "rounding-" + which))
    for prog in PROGRAMS:
        for mo in (["unrestricted", ["1"] * 9, ["1"] * 7], ["restricted", ["1", "1", "1"], ["1", "0", "0"]],
                   ["unrestricted", ["1", "1/2"], ["1"]], ["restricted", ["1", "1/2"], ["1", "0"]],
                   ["unrestricted", ["1", "1"], ["1", "1", "1", "1"]], ["restricted", ["1"], ["1"]]):
            cases.append(({"prog": prog, "atoms": [(8, 0, 0, 0), (8, 1207000, 0, 0)], "mo": mo}, "orbitals-derived"))
    cases.extend(_callback_cases(ctx))
    for n in (100, 200):
        cases.append((_rand_case(rng, n), f"{n}-atoms"))
    if ctx.thorough:
        for n in range(1, 201, 7):
            cases.append((_rand_case(rng, n), "size-sweep"))
    for _ in range(ctx.n(1200, 20000)):
        cases.append((_rand_case(rng), "random"))
    return cases


def _callback_cases(ctx):
    """Systematic scripted callbacks: every exception class / non-str kind / special text at every position."""
    rng = ctx.rng
    cases = []
    three = [(8, 0, 0, 0), (1, 957200, 0, 0), (1, -239987, 926627, 0)]
    ok = [["L", "first"], ["D"], ["Z"]]
    for ip, prog in enumerate(PROGRAMS):
        def add(cls, table, atoms=three, **kw):
            cases.append(({"prog": kw.pop("prog", prog), "atoms": list(atoms), "cb": table, **kw}, cls))

        # failures: each class at each atom (quick: one position per class, rotating; thorough: all three)
        for j, (kind, names) in enumerate((("E", sorted(EXC)), ("B", sorted(BASE)), ("N", sorted(NONSTR)))):
            for i, name in enumerate(names):
                for k in (range(3) if ctx.thorough or kind != "E" else [(i + ip) % 3]):
                    table = [list(e) for e in ok]
                    table[k] = [kind, name]
                    add(f"callback-{'raises' if kind != 'N' else 'returns-nonstr'}", table, pre=bool((i + k + j) % 2))
        # two failures: the earlier call decides, a non-str before a raise does not stop the calls
        for first, second in ((["E", "KeyError"], ["B", "KeyboardInterrupt"]), (["B", "SystemExit"], ["E", "ValueError"]),
                              (["N", "None"], ["E", "RuntimeError"]), (["N", "int"], ["B", "GeneratorExit"]),
                              (["E", "Custom"], ["N", "bytes"])):
            add("callback-two-failures", [first, ["L", "mid"], second], pre=True)
            add("callback-two-failures", [["L", "x"], first, second])
        # texts: every special text at every position, alone and next to default lines
        for i, text in enumerate(CB_TEXTS):
            for k in range(3):
                table = [["D"], ["D"], ["D"]]
                table[k] = ["S" if (i + k) % 5 == 0 else "L", text]
                add("callback-text", table, pre=bool((i + k) % 2))
            add("callback-text", [["L", text]] * 3, template="[{geometry}]{lot}")
            add("callback-text", [["L", text]], atoms=three[:1])
        add("callback-default-delegate", [["D"], ["D"], ["D"]])
        add("callback-object-dependent", [["Z"], ["Z"], ["Z"]], template=PROBE if ip else None)
        # the default is never consulted: elements without a symbol are written when the callback does not delegate
        add("callback-unknown-element", [["L", "Xx 0 0 0"], ["Z"]], atoms=[(0, 0, 0, 0), (119, 1, 2, 3)])
        add("callback-unknown-element", [["L", "a"], ["D"], ["L", "never"]], atoms=[(1, 0, 0, 0), (0, 1, 2, 3), (1, 0, 0, 0)])
        # what precedes the callback: unknown program (file untouched), unknown run type (file opened, no call)
        for pre in (False, True):
            add("callback-unknown-program", [["B", "KeyboardInterrupt"]] * 3, prog=prog.upper(), pre=pre)
            add("callback-unknown-program", [["L", "x"]] * 3, prog="common", pre=pre)
            add("callback-unknown-run-type", [["B", "KeyboardInterrupt"]] * 3, run_type="bogus", pre=pre)
            add("callback-unknown-run-type", [["L", "x"]] * 3, run_type="sp", pre=pre)
            cases.append(({"prog": "nope", "atoms": three, "pre": pre}, "unknown-program"))
            cases.append(({"prog": prog, "atoms": three, "pre": pre, "run_type": "bogus"}, "every-run-type"))
            cases.append(({"prog": prog, "atoms": [(1, 0, 0, 0), (0, 1, 2, 3)], "pre": pre}, "unknown-element"))
            cases.append(({"prog": prog, "atoms": three, "pre": pre, "template": "{nokey}"}, "bad-template"))
            cases.append(({"prog": prog, "atoms": three, "pre": pre}, "file-replaced"))
        # what follows the callback: a bad template fails after every atom was asked; kwargs cannot replace the geometry
        for tmpl in ("{", "{nokey}", "}{geometry}", "{0}"):
            add("callback-bad-template", [["L", "x"], ["Z"], ["D"]], template=tmpl, pre=True)
        add("callback-geometry-kwarg", [["L", "g"]] * 3, template="{geometry}|{geometry}", kwargs={"geometry": "KW"})
        # table shorter / longer than the molecule
        add("callback-short-table", [["L", "x"], ["L", "y"]])
        add("callback-long-table", [["L", "x"], ["L", "y"], ["L", "z"], ["E", "ValueError"]])
        # no atoms: the callback is never called
        add("zero-atoms", [], atoms=[])
        add("zero-atoms", [["B", "SystemExit"]], atoms=[], template=PROBE)
        cases.append(({"prog": prog, "atoms": []}, "zero-atoms"))
        # many atoms: failure at a random atom of a big molecule
        for n in (50, 200):
            big = _rand_case(rng, n)
            big.update(prog=prog, cb=[["D"]] * n, run_type="opt")
            big["atoms"] = [(rng.randint(1, 118), *a[1:]) for a in big["atoms"]]
            big["cb"][rng.randrange(n)] = rng.choice([["E", "OSError"], ["B", "CustomBase"], ["N", "list"], ["L", "two\nlines"]])
            big.pop("template", None)
            cases.append((big, f"callback-{n}-atoms"))
    return cases


def correspond(ctx):
    cases = _cases(ctx)
    reqs, outs, nontriv, classes = [], [], [], []
    for case, cls in cases:
        data = build(case)
        st, text, fstate, calls = run_impl(case, data)
        reqs.append(request(case, data))
        outs.append(response(st, fstate, calls))
        nontriv.append(bool(case.get("cb") is not None or case.get("template") is not None or case.get("kwargs")
                            or len(case["atoms"]) > 1
                            or any(case.get(k) is not None for k in ("title", "lot", "obasis_name", "run_type", "charge", "spinpol"))))
        classes.append(f"{cls}/{case['prog'] if case['prog'] in PROGRAMS else 'other'}/"
                       + ("template" if case.get("template") is not None else "default-template")
                       + ("+kwargs" if case.get("kwargs") else "") + "/" + cb_class(case)
                       + ("/pre-existing" if case.get("pre") else "") + "/" + st + ("" if fstate.startswith("f=") else ":" + fstate))
    ctx.corr("input", reqs, outs, nontriv, classes)


# --------------------------------------------------------------------------- S (real code only)
GAUSSIAN_KW = {"energy": "sp", "energy_force": "force", "opt": "opt", "scan": "scan", "freq": "freq"}
ORCA_KW = {"energy": "Energy", "freq": "Freq", "opt": "Opt"}
BAD_TEMPLATES = ["{", "}", "{}", "{0}", "{nokey}", "{title", "x}{lot}"]
PROBE = "T={title}|L={lot}|B={obasis_name}|R={run_type}|C={charge}|M={spinmult}|\n{geometry}\nEND"


def _expected_fields(case, data):
    prog = case["prog"]
    kwmap = GAUSSIAN_KW if prog == "gaussian" else ORCA_KW
    rt = (case.get("run_type") or "energy").lower()
    if rt not in kwmap:
        return None
    exp = {
        "title": case["title"] if case.get("title") is not None else "Input Generated by IOData",
        "lot": case.get("lot") or ("hf" if prog == "gaussian" else "HF"),
        "obasis_name": case.get("obasis_name") or ("sto-3g" if prog == "gaussian" else "STO-3G"),
        "run_type": kwmap[rt],
        "charge": str(round(Fraction(float(data.charge)))) if data.charge is not None else "0",
        "spinmult": str(abs(round(Fraction(float(data.spinpol)))) + 1) if data.spinpol is not None else "1",
    }
    if case.get("mo"):
        # derived from the orbital occupations of the case itself (dyadic rationals: exact), not from the object's properties
        na = sum(Fraction(x) for x in case["mo"][1])
        nb = sum(Fraction(x) for x in case["mo"][2])
        exp["spinmult"] = str(round(abs(na - nb)) + 1)
        exp["charge"] = str(round(sum(a[0] for a in case["atoms"]) - (na + nb)))
    for k, v in (case.get("kwargs") or {}).items():
        if k in exp:
            exp[k] = str(v)
    return exp


def _fix6(k):
    """'%10.6f' of k*1e-6 written from the integer itself"""
    body = f"{abs(k) // 10**6}.{abs(k) % 10**6:06d}"
    return ("-" + body if k < 0 else body).rjust(10)


def _show_cb(table):
    return "None" if table is None else "[" + ", ".join(e[0] + (":" + repr(e[1])[:24] if len(e) > 1 else "") for e in table[:8]) + (", ...]" if len(table) > 8 else "]")


def check_input(case):
    """the property's predicate for one case whose template is PROBE, a BAD_TEMPLATE or the default; returns None or (sig, what)"""
    from iodata.periodic import num2sym

    data = build(case)
    st, text, fstate, calls = run_impl(case, data)
    prog = case["prog"]
    cb = case.get("cb")
    call = (f"write_input(fmt={prog!r}, run_type={case.get('run_type')!r}, kwargs={case.get('kwargs')!r}"
            + (f", atom_line={_show_cb(cb)}" if cb is not None else "") + (", existing file" if case.get("pre") else "") + ")")
    untouched = "old" if case.get("pre") else "absent"
    if prog not in PROGRAMS:
        if st != "err FileFormatError":
            return ("input-unknown-program", f"{call} ended with {st}, expected FileFormatError")
        if fstate != untouched:
            return ("input-file-state:unknown-program", f"{call}: file is {fstate[:40]!r} afterwards, expected it {untouched}")
        if calls:
            return ("input-callback-calls", f"{call}: callback called with {calls} although the program is unknown")
        return None
    exp = _expected_fields(case, data)
    valid_atoms = all(a[0] in num2sym for a in case["atoms"])
    want_st, want_calls, cb_lines = None, None, None
    if exp is None:
        want_st, want_calls = "err WriteInputError", []
    elif cb is not None:
        kind, ncalls, x = cb_outcome(case)
        want_calls = list(range(ncalls))
        if kind != "lines":
            want_st = x
        else:
            cb_lines = x
            if case.get("template") in BAD_TEMPLATES:
                want_st = "err WriteInputError"
    elif not valid_atoms or case.get("template") in BAD_TEMPLATES:
        want_st = "err WriteInputError"
    if cb is None:
        want_calls = None
    if want_st is not None:
        if st != want_st:
            if cb is not None and exp is not None and cb_lines is None:
                return (f"input-callback-failure:{st.replace('err ', '')}", f"{call} ended with {st}, expected {want_st}")
            return ("input-failure-class", f"{call} ended with {st}, expected {want_st}")
        if calls != want_calls:
            return ("input-callback-calls", f"{call}: callback called with iatom = {calls}, expected {want_calls}")
        if fstate != "f=@":
            return ("input-file-state:after-failure", f"{call} ended with {st}: file is {fstate[:40]!r}, expected it opened and empty")
        return None
    if st != "ok":
        return ("input-rejects-valid", f"{call} ended with {st} for a valid object")
    if calls != want_calls:
        return ("input-callback-calls", f"{call}: callback called with iatom = {calls}, expected {want_calls}")
    if cb_lines is not None:
        # custom callback: the geometry is exactly the join of the callback's strings (default lines where it delegates)
        geom = "\n".join(l if l is not None else f"{num2sym[a[0]]:3s} {_fix6(a[1])} {_fix6(a[2])} {_fix6(a[3])}"
                         for l, a in zip(cb_lines, case["atoms"]))
        if case.get("template") == PROBE:
            head, tail = "T={title}|L={lot}|B={obasis_name}|R={run_type}|C={charge}|M={spinmult}|\n".format(**exp), "\nEND\n"
        elif prog == "gaussian":
            head, tail = "#n {lot}/{obasis_name} {run_type}\n\n{title}\n\n{charge} {spinmult}\n".format(**exp), "\n\n\n"
        else:
            head, tail = "! {lot} {obasis_name} {run_type}\n# {title}\n*xyz {charge} {spinmult}\n".format(**exp), "\n*\n"
        if text == head + geom + tail:
            return None
        if text.startswith(head) and text.endswith(tail) and len(text) >= len(head) + len(tail):
            got = text[len(head):len(text) - len(tail)]
            return ("input-callback-geometry", f"{call}: geometry block {got[:120]!r}, expected the callback's strings joined: {geom[:120]!r}")
        if text.startswith(head):
            return ("input-callback-geometry", f"{call}: text after the header is {text[len(head):][:120]!r}, expected {(geom + tail)[:120]!r}")
        bad = [k for k in exp if exp[k] not in text[:len(head) + 40]]
        return (f"input-field:{','.join(bad) or 'layout'}", f"{call}: file starts with {text[:len(head)]!r}, expected {head!r}")
    lines = text.split("\n")
    natom = len(case["atoms"])
    if case.get("template") == PROBE:
        head, geom, tail = lines[0], lines[1:1 + natom], lines[1 + natom:]
        want = "T={title}|L={lot}|B={obasis_name}|R={run_type}|C={charge}|M={spinmult}|".format(**exp)
        if head != want:
            for k in exp:
                if f"{k[0].upper() if k != 'obasis_name' else 'B'}=" and exp[k] not in head:
                    pass
            bad = [k for k, tag in zip(["title", "lot", "obasis_name", "run_type", "charge", "spinmult"], "TLBRCM")
                   if f"{tag}={exp[k]}|" not in head]
            return (f"input-field:{','.join(bad) or 'layout'}", f"{call}: header {head!r}, expected {want!r}")
        if tail != ["END", ""]:
            return ("input-geometry-line-count", f"{call}: {len(lines) - 3} geometry lines for {natom} atoms")
    else:
        if prog == "gaussian":
            want_head = [f"#n {exp['lot']}/{exp['obasis_name']} {exp['run_type']}", "", exp["title"], "", f"{exp['charge']} {exp['spinmult']}"]
            nh, want_tail = 5, ["", "", ""]
        else:
            want_head = [f"! {exp['lot']} {exp['obasis_name']} {exp['run_type']}", f"# {exp['title']}", f"*xyz {exp['charge']} {exp['spinmult']}"]
            nh, want_tail = 3, ["*", ""]
        if lines[:nh] != want_head:
            bad = [k for k in exp if exp[k] not in "\n".join(lines[:nh])]
            return (f"input-field:{','.join(bad) or 'layout'}", f"{call}: header {lines[:nh]!r}, expected {want_head!r}")
        geom, tail = lines[nh:nh + natom], lines[nh + natom:]
        if tail != want_tail:
            return ("input-geometry-line-count", f"{call}: tail {tail[:4]!r} after {natom} expected atom lines")
    for (z, kx, ky, kz), line in zip(case["atoms"], geom):
        w = line.split()
        if len(w) != 4 or w[0] != num2sym[z]:
            return ("input-atom-symbol", f"{call}: atom line {line!r} for Z={z}")
        for k, word in zip((kx, ky, kz), w[1:]):
            if abs(Fraction(word) * 10**6 - k) > Fraction(1, 2):
                return ("input-atom-coordinate", f"{call}: atom line {line!r}, coordinate {k}e-6 angstrom expected")
    return None


def _search_case(rng):
    n = rng.choice([1, 2, 3, 7, 20])
    atoms = [(rng.randint(1, 118), *(rng.randint(-10**7, 10**7) for _ in range(3))) for _ in range(n)]
    case = {"prog": rng.choice(PROGRAMS + PROGRAMS + ["nwchem", "Orca"]), "atoms": atoms}
    if rng.random() < 0.5:
        case["title"] = rng.choice(["water", "", "a title", "x=1"])
    if rng.random() < 0.5:
        case["lot"] = rng.choice(["", "B3LYP", "mp2"])
    if rng.random() < 0.5:
        case["obasis_name"] = rng.choice(["", "6-31G", "cc-pVTZ"])
    if rng.random() < 0.6:
        case["run_type"] = rng.choice(["", "energy", "energy_force", "opt", "scan", "freq", "OPT", "Freq", "bogus"])
    for k in ("charge", "spinpol"):
        c = _rand_charge(rng)
        case[k] = None if c is None else str(c)
    if rng.random() < 0.25:
        case["mo"] = _rand_mo(rng)
    if rng.random() < 0.4:
        case["kwargs"] = {rng.choice(["lot", "obasis_name", "run_type", "charge", "spinmult", "title"]): rng.choice(["KW", 7, "zz", 0, ""])}
    if rng.random() < 0.5:
        case["template"] = PROBE
    elif rng.random() < 0.15:
        case["template"] = rng.choice(BAD_TEMPLATES)
    if rng.random() < 0.05:
        case["atoms"] = atoms + [(rng.choice([0, 119]), 0, 0, 0)]
    if rng.random() < 0.4:
        case["cb"] = _rand_table(rng, len(case["atoms"]))
        if rng.random() < 0.2:
            case["atoms"] = list(case["atoms"])
            case["atoms"][rng.randrange(len(case["atoms"]))] = (rng.choice([0, 119, 300]), 5, 6, 7)
    if rng.random() < 0.4:
        case["pre"] = True
    return case


ATTR_TEMPLATE = "K={mo.kind}|A={mo.norba}|B={mo.norbb}|N={atnums[0]}|E={extra[tag]}|\n{geometry}\nEND\n"


def check_attr_template(case):
    """user templates may reach into the fields with attribute and item access (`{mo.kind}`, `{extra[tag]}`): the
    fields are the object's own attribute values, not copies converted to other types"""
    data = build(case)
    data.extra = {"tag": "v1"}
    c2 = dict(case, template=ATTR_TEMPLATE, kwargs=None, cb=None, pre=False)
    st, text, _fstate, _calls = run_impl(c2, data)
    want = f"K={data.mo.kind}|A={data.mo.norba}|B={data.mo.norbb}|N={int(data.atnums[0])}|E=v1|\n"
    if st != "ok":
        return ("input-attribute-template", f"write_input(fmt={case['prog']!r}) with a template using {{mo.kind}} / {{extra[tag]}} ended with {st}")
    if not text.startswith(want):
        return ("input-attribute-template", f"template fields rendered as {text.splitlines()[0]!r}, expected {want.strip()!r}")
    return None


def search(ctx):
    rng = ctx.rng
    for _ in range(ctx.n(40, 400)):
        case = _search_case(rng)
        if case["prog"] not in PROGRAMS or any(a[0] not in range(1, 119) for a in case["atoms"]):
            continue
        case["mo"] = _rand_mo(rng)
        case["run_type"] = rng.choice(["opt", "energy", "freq"])  # run types both programs know
        r = check_attr_template(case)
        ctx.count("search-attribute-template", case, case["prog"] + ("/ok" if r is None else "/" + r[0]))
        if r:
            ctx.fail(r[0], r[1], {"kind": "attr-template", "case": {**case, "atoms": [list(a) for a in case["atoms"]]}})
    check_failures(ctx)
    for case, what in _callback_failure_cases():
        r = check_input(case)
        ctx.count("search-failure-injection", [case["prog"], what, case.get("pre", False)], "callback/" + cb_class(case) + ("/ok" if r is None else "/" + r[0]))
        if r:
            ctx.fail(r[0], r[1], {"kind": "input", "case": case})
    for _ in range(ctx.n(1500, 20000) * (3 if ctx.escalated else 1)):
        case = _search_case(rng)
        r = check_input(case)
        ctx.count("search-input", case, f"{case['prog'] if case['prog'] in PROGRAMS else 'other'}/"
                  + ("probe" if case.get("template") == PROBE else "bad-template" if case.get("template") else "default")
                  + "/" + cb_class(case) + ("/ok" if r is None else "/" + r[0]),
                  sample={k: v for k, v in case.items() if k != "atoms"})
        if r:
            ctx.fail(r[0], r[1], {"kind": "input", "case": {**case, "atoms": [list(a) for a in case["atoms"]]}})


def _callback_failure_cases():
    """Scripted callbacks failing at a chosen atom: every Exception class / BaseException class / non-str kind at
    every position of a three-atom molecule, on a fresh and on an existing file; checked by `check_input`."""
    water = [[8, 0, 0, 0], [1, 957200, 0, 0], [1, -239987, 926627, 0]]
    cases = []
    for prog in PROGRAMS:
        for kind, names in (("E", sorted(EXC)), ("B", sorted(BASE)), ("N", sorted(NONSTR))):
            for i, name in enumerate(names):
                for k in range(3):
                    table = [["L", "O 0 0 0"], ["D"], ["Z"]]
                    table[k] = [kind, name]
                    case = {"prog": prog, "atoms": water, "cb": table, "pre": bool((i + k) % 2)}
                    if (i + k) % 3 == 0:
                        case["template"] = PROBE
                    cases.append((case, f"atom_line {'raises' if kind != 'N' else 'returns'} {name} at atom {k}"))
        cases.append(({"prog": prog, "atoms": water, "cb": [["L", "a"], ["L", "b\nc"], ["L", ""]], "template": PROBE}, "texts"))
        cases.append(({"prog": prog, "atoms": water, "cb": [["L", "a"], ["L", "b"]]}, "short table"))
    return cases


def _failure_cases():
    """Rendering failures of many exception classes: each must surface as WriteInputError."""
    def raiser(exc):
        def atom_line(data, iatom):
            raise exc
        return atom_line

    cases = []
    for prog in PROGRAMS:
        for name, exc in (("ZeroDivisionError", ZeroDivisionError("x")), ("RuntimeError", RuntimeError("x")),
                          ("AttributeError", AttributeError("x")), ("OSError", OSError("x")),
                          ("AssertionError", AssertionError("x")), ("Custom", _Custom("x")),
                          ("KeyError", KeyError("x")), ("IndexError", IndexError("x")),
                          ("TypeError", TypeError("x")), ("ValueError", ValueError("x")),
                          ("ArithmeticError", FloatingPointError("x")), ("UnicodeError", UnicodeDecodeError("a", b"", 0, 1, "x")),
                          ("StopIteration", StopIteration())):
            cases.append((prog, f"atom_line raises {name}", {"atom_line": raiser(exc)}, None))
        for tmpl, why in (("{cellvecs.shape}", "AttributeError on a None field"), ("{mo.norba}", "AttributeError"),
                          ("{atnums[99]}", "IndexError"), ("{nosuchfield}", "KeyError"), ("{0}", "positional field"),
                          ("{title!x}", "bad conversion"), ("{charge:q}", "bad format spec"), ("{", "unbalanced brace")):
            cases.append((prog, f"template {tmpl!r}: {why}", {}, tmpl))
        cases.append((prog, "infinite charge (OverflowError)", {"_charge": float("inf")}, None))
        cases.append((prog, "nan spinpol", {"_spinpol": float("nan")}, None))
    return cases


def check_failures(ctx):
    from iodata import IOData
    from iodata.api import write_input
    from iodata.utils import WriteInputError

    for prog, what, kw, tmpl in _failure_cases():
        kw = dict(kw)
        data = IOData(atnums=np.array([8, 1, 1]), atcoords=np.array([[0, 0, 0.0], [0, 1, 1.0], [0, -1, 1.0]]),
                      charge=kw.pop("_charge", 0.0), spinpol=kw.pop("_spinpol", 0.0))
        with tempfile.TemporaryDirectory(prefix="c19-") as tmp:
            path = os.path.join(tmp, "input.in")
            try:
                write_input(data, path, prog, template=tmpl, **kw)
                st = "ok"
            except WriteInputError:
                st = "WriteInputError"
            except Exception as exc:
                st = type(exc).__name__
            left = open(path).read() if os.path.exists(path) else None
        ctx.count("search-failure-injection", [prog, what], st)
        if st != "ok" and left != "":
            ctx.fail("input-file-state:after-failure", f"write_input({prog}): {what} ended with {st} and left the file "
                     + ("absent" if left is None else f"with content {left[:40]!r}") + ", expected it opened and empty",
                     {"kind": "failure", "prog": prog, "what": what})
        if st not in ("WriteInputError",) and not (st == "ok" and "nan" in what):
            ctx.fail(f"input-failure-escapes:{st}", f"write_input({prog}): {what} ended with {st}, expected WriteInputError",
                     {"kind": "failure", "prog": prog, "what": what})


def replay(ctx, obj):
    if obj["input"].get("kind") == "failure":
        n0 = len(ctx.failures)
        check_failures(ctx)
        return any(f["input"].get("what") == obj["input"]["what"] and f["input"].get("prog") == obj["input"]["prog"]
                   for f in ctx.failures[n0:])
    case = obj["input"]["case"]
    case["atoms"] = [tuple(a) for a in case["atoms"]]
    if obj["input"].get("kind") == "attr-template":
        return check_attr_template(case) is not None
    return check_input(case) is not None
