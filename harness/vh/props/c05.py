"""C05 — Molden/Molekel files from quirky programs load as the true wavefunction (repair cascade)."""

from __future__ import annotations

import ast
import json
import math
import multiprocessing as mp
import random
import warnings
from fractions import Fraction
from pathlib import Path

import numpy as np

from .. import gto
from .. import vendorfiles as vf
from ..engine import REPO, lean_list, lean_str

MODULES = ["Iodata.Props.C05"]
RULE = (
    "random true wavefunctions (1-3 atoms, 1-4 segmented shells per atom, s..g Cartesian or pure and pure h, 1-3 "
    "primitives, restricted/unrestricted COMPLETE orbital sets obtained by Loewdin-orthonormalising random matrices "
    "with the harness's own overlap evaluator, min overlap eigenvalue >= 2e-3) x vendor encoding written by an "
    "independent encoder (standard, ORCA, PSI4<=1.0, Turbomole, CFOUR 2.1, unnormalised contractions, PSI4<=1.3.2 with "
    "and without unnormalised contractions) x {Molden AU, Molden Angs, MKL} x norm_threshold in {default,1e-3,1e-5,1e-6} "
    "x 12/14/17 significant digits; plus corrupted encodings (per-primitive scale errors in contracted shells, per-row "
    "MO scale errors, ORCA quirk applied twice) and the repository's Molden/MKL fixtures. cascade stream: shell-type "
    "list + the recorded real norm-test booleans -> executed tests, branch, warning class, stored basis/coefficients. "
    "non-trivial = the file is not the standard encoding (a correction or a rejection is at stake); distinct = "
    "distinct (shell types, test outcomes) for the cascade stream, distinct generated file for the search"
)
TRUSTED = [
    "harness/vh/gto.py: own Gauss-Hermite overlap evaluator and real solid harmonics (cross-checked against the "
    "standard-encoded files: they must load without correction)",
    "harness/vh/vendorfiles.py: the vendor encoders (hand-written from the documented deviations) and text writers",
    "translator for Gen/Cascade.lean: ast walk of _fix_molden_from_buggy_codes (attempt order, guards, tested and stored "
    "variables, warning texts) and behavioural probing of the six _fix_* functions on one shell per type",
]
ASSUMPTIONS = [
    "the norm test is an oracle boolean in the Lean model; that the branch taken is the RIGHT one for a vendor is "
    "numerical and only searched (random files), not proved",
    "mo.kind is restricted/unrestricted and all shells are segmented (what the two loaders produce); the two "
    "LoadError pre-checks for other inputs are not modelled",
    "text scanning of Molden/MKL is not modelled (exercised by the search only)",
]
TIME_LIMIT = {"quick": 900, "thorough": 3600}

DATA = REPO / "iodata" / "test" / "data"
PROBE_TYPES = [(0, "c"), (1, "c"), (2, "c"), (2, "p"), (3, "c"), (3, "p"), (4, "c"), (4, "p"), (5, "p")]
EXTRA_TYPES = [(5, "c"), (6, "c"), (6, "p")]  # "do not correct anything unless we know how"

BASIS_FIX_FUNCS = {
    "_fix_obasis_orca": "orca",
    "_fix_obasis_psi4": "psi4old",
    "_fix_obasis_turbomole": "turbomole",
    "_fix_obasis_normalize_contractions": "normalize",
}
COEFF_FIX_FUNCS = {"_fix_mo_coeffs_cfour": "cfour", "_fix_mo_coeffs_psi4": "psi4new"}
WARN_KEYS = [("PSI4 <= 1.3.2", "psi4new"), ("PSI4 < 1.0", "psi4old"), ("ORCA", "orca"), ("Turbomole", "turbomole"),
             ("CFOUR", "cfour"), ("unnormalized contractions", "unnorm")]


# =====================================================================================================
# T1: translator
def _src_func(tree, name):
    for node in tree.body:
        if isinstance(node, ast.FunctionDef) and node.name == name:
            return node
    raise ValueError(f"function {name} not found in molden.py")


def _is_norm_call(node):
    return isinstance(node, ast.Call) and isinstance(node.func, ast.Name) and node.func.id == "_is_normalized_properly"


def _not_none_name(node):
    if (isinstance(node, ast.Compare) and len(node.ops) == 1 and isinstance(node.ops[0], ast.IsNot)
            and isinstance(node.left, ast.Name) and isinstance(node.comparators[0], ast.Constant)
            and node.comparators[0].value is None):
        return node.left.id
    return None


def extract_skeleton(src: str):
    """Ordered attempts of _fix_molden_from_buggy_codes.  Raises when the function has another shape."""
    tree = ast.parse(src)
    fn = _src_func(tree, "_fix_molden_from_buggy_codes")
    env = {}  # variable -> ("basis", fix) | ("corr", fix) | ("coef", fix, spin)
    attempts = []
    state = {"final_raise": False, "done": False}

    def expr_kind(node):
        """Classify the value of an expression used as basis or coefficient argument."""
        if isinstance(node, ast.Name):
            if node.id not in env:
                raise ValueError(f"unknown variable {node.id} in the cascade")
            return env[node.id]
        if isinstance(node, ast.Constant) and node.value is None:
            return ("coef", "raw", "b")
        raise ValueError("unsupported expression " + ast.unparse(node))

    def coef_expr(node, spin):
        # coeffsX / corr[:, np.newaxis]      or      None if coeffsb is None else coeffsb / corr[:, np.newaxis]
        if isinstance(node, ast.IfExp):
            if ast.unparse(node.test) != "coeffsb is None" or ast.unparse(node.body) != "None":
                raise ValueError("unsupported beta expression " + ast.unparse(node))
            node = node.orelse
        if (isinstance(node, ast.BinOp) and isinstance(node.op, ast.Div) and isinstance(node.left, ast.Name)
                and node.left.id == "coeffs" + spin and isinstance(node.right, ast.Subscript)
                and isinstance(node.right.value, ast.Name) and env.get(node.right.value.id, ("",))[0] == "corr"
                and ast.unparse(node.right.slice) in ("(slice(None, None, None), np.newaxis)", ":, np.newaxis",
                                                      "(:, np.newaxis)")):
            return ("coef", env[node.right.value.id][1], spin)
        raise ValueError("unsupported coefficient expression " + ast.unparse(node))

    def handle_test(test, body, guards):
        """An `if <norm test>:` statement."""
        tests = [test]
        g = list(guards)
        if isinstance(test, ast.BoolOp) and isinstance(test.op, ast.And):
            tests = list(test.values)
        call = None
        for t in tests:
            nn = _not_none_name(t)
            if nn is not None:
                if call is not None:
                    raise ValueError("guard after the norm test")
                g.append(nn)
            elif _is_norm_call(t):
                call = t
            else:
                raise ValueError("unsupported condition " + ast.unparse(t))
        if call is None:
            raise ValueError("if without norm test: " + ast.unparse(test))
        if len(call.args) != 5 or call.keywords:
            raise ValueError("norm test call has another signature: " + ast.unparse(call))
        if ast.unparse(call.args[1]) != "atcoords" or ast.unparse(call.args[4]) != "norm_threshold":
            raise ValueError("norm test is not called with atcoords / norm_threshold: " + ast.unparse(call))
        kb = expr_kind(call.args[0])
        ka = expr_kind(call.args[2])
        kbb = expr_kind(call.args[3])
        if kb[0] != "basis" or ka[0] != "coef" or kbb[0] != "coef" or ka[2] != "a" or kbb[2] != "b" or ka[1] != kbb[1]:
            raise ValueError("norm test arguments are inconsistent: " + ast.unparse(call))
        att = {"testBasis": kb[1], "testCoeff": ka[1], "guardBasis": False, "guardCoeff": False, "warn": None,
               "warnText": None, "storeBasis": None, "storeCoeff": None}
        for name in g:
            k = env.get(name)
            if k is None:
                raise ValueError("guard on unknown variable " + name)
            if k[0] == "basis" and k[1] == kb[1]:
                att["guardBasis"] = True
            elif k[0] == "corr" and k[1] == ka[1]:
                att["guardCoeff"] = True
            else:
                raise ValueError(f"guard on {name} does not belong to what is tested")
        # body
        if not body or not isinstance(body[-1], ast.Return) or body[-1].value is not None:
            raise ValueError("a successful attempt does not end with a bare return")
        for st in body[:-1]:
            if isinstance(st, ast.Expr) and isinstance(st.value, ast.Call) and ast.unparse(st.value.func) == "warn":
                w = st.value.args[0]
                if not (isinstance(w, ast.Call) and ast.unparse(w.func) == "LoadWarning"
                        and isinstance(w.args[0], ast.Constant) and isinstance(w.args[0].value, str)):
                    raise ValueError("unsupported warning " + ast.unparse(st))
                if att["warn"] is not None:
                    raise ValueError("two warnings in one attempt")
                att["warnText"] = w.args[0].value
                hits = [c for k, c in WARN_KEYS if k in w.args[0].value]
                att["warn"] = hits[0] if hits else "other"
            elif isinstance(st, ast.Assign) and ast.unparse(st.targets[0]) == "result['obasis']":
                k = expr_kind(st.value)
                if k[0] != "basis":
                    raise ValueError("result['obasis'] assigned a non-basis")
                att["storeBasis"] = k[1]
            elif isinstance(st, ast.If) and ast.unparse(st.test) == "result['mo'].kind == 'restricted'":
                got = {}
                for sub in st.body + st.orelse:
                    if not (isinstance(sub, ast.Assign) and len(sub.targets) == 1):
                        raise ValueError("unsupported statement " + ast.unparse(sub))
                    got[ast.unparse(sub.targets[0])] = expr_kind(sub.value)
                want = {"result['mo'].coeffs[:]": "a", "result['mo'].coeffsa[:]": "a", "result['mo'].coeffsb[:]": "b"}
                if set(got) != set(want):
                    raise ValueError("coefficient store has another shape: " + ", ".join(sorted(got)))
                fixes = {v[1] for v in got.values()}
                if len(fixes) != 1 or any(v[0] != "coef" or v[2] != want[k] for k, v in got.items()):
                    raise ValueError("coefficient store mixes variables")
                att["storeCoeff"] = fixes.pop()
            else:
                raise ValueError("unsupported statement in a successful attempt: " + ast.unparse(st)[:80])
        attempts.append(att)

    def walk(stmts, guards):
        for st in stmts:
            if state["final_raise"]:
                raise ValueError("statements after the final raise")
            if isinstance(st, ast.Expr) and isinstance(st.value, ast.Constant):
                continue  # docstring
            if isinstance(st, ast.Assign) and len(st.targets) == 1 and isinstance(st.targets[0], ast.Name):
                tgt = st.targets[0].id
                v = st.value
                txt = ast.unparse(v)
                if txt == "result['obasis']":
                    env[tgt] = ("basis", "raw")
                elif txt == "result['atcoords']":
                    env[tgt] = ("other",)
                elif isinstance(v, ast.Call) and isinstance(v.func, ast.Name) and v.func.id in BASIS_FIX_FUNCS:
                    if ast.unparse(v.args[0]) != "obasis" or len(v.args) != 1:
                        raise ValueError("basis fix not applied to the raw obasis: " + txt)
                    env[tgt] = ("basis", BASIS_FIX_FUNCS[v.func.id])
                elif isinstance(v, ast.Call) and isinstance(v.func, ast.Name) and v.func.id in COEFF_FIX_FUNCS:
                    if ast.unparse(v.args[0]) != "obasis" or len(v.args) != 1:
                        raise ValueError("coefficient fix not derived from the raw obasis: " + txt)
                    env[tgt] = ("corr", COEFF_FIX_FUNCS[v.func.id])
                elif tgt.startswith("coeffsa_"):
                    env[tgt] = coef_expr(v, "a")
                elif tgt.startswith("coeffsb_"):
                    env[tgt] = coef_expr(v, "b")
                else:
                    raise ValueError("unsupported assignment " + ast.unparse(st)[:80])
                continue
            if isinstance(st, ast.If):
                txt = ast.unparse(st.test)
                if txt == "result['mo'].kind == 'restricted'" and not attempts:
                    # the header selecting coeffsa/coeffsb
                    hdr = ast.unparse(st)
                    for need in ("coeffsa = result['mo'].coeffs", "coeffsb = None", "coeffsa = result['mo'].coeffsa",
                                 "coeffsb = result['mo'].coeffsb", "raise LoadError"):
                        if need not in hdr:
                            raise ValueError("header of the cascade changed: missing " + need)
                    env["coeffsa"] = ("coef", "raw", "a")
                    env["coeffsb"] = ("coef", "raw", "b")
                    continue
                if txt.startswith("any((shell.ncon != 1 for shell in obasis.shells))") and not attempts:
                    continue
                nn = _not_none_name(st.test)
                if nn is not None:
                    if st.orelse:
                        raise ValueError("guard with else branch")
                    walk(st.body, guards + [nn])
                    continue
                if st.orelse:
                    raise ValueError("norm test with else branch")
                handle_test(st.test, st.body, guards)
                continue
            if isinstance(st, ast.Raise) and not guards:
                if not ast.unparse(st.exc).startswith("LoadError("):
                    raise ValueError("final raise is not LoadError")
                state["final_raise"] = True
                continue
            raise ValueError("unsupported statement " + ast.unparse(st)[:80])

    walk(fn.body, [])
    if not state["final_raise"]:
        raise ValueError("the cascade does not end with raise LoadError")
    # the norm test itself
    nf = _src_func(tree, "_is_normalized_properly")
    txt = ast.unparse(nf)
    shape = (ast.unparse(nf.body[-1]) == "return error_max <= norm_threshold"
             and "error_max = max(error_max, abs(norm - 1))" in txt
             and "norm = np.dot(vec, np.dot(olp, vec))" in txt
             and "olp = compute_overlap(obasis, atcoords)" in txt
             and "error_max = 0.0" in txt)
    return attempts, shape


def _classify_scale(l, alphas, c_in, out1, out2):
    """Scale descriptor of a basis fix on one shell type from two calls (second with 2.5 x coefficients)."""
    rho = [a / b for a, b in zip(c_in, out1)]
    if all(abs(r - 1.0) < 1e-14 for r in rho):
        return "one"
    if all(abs(a - b) < 1e-12 * abs(a) for a, b in zip(out1, out2)):
        return "unit"
    if any(abs(2.5 * a - b) > 1e-12 * abs(b) for a, b in zip(out1, out2)):
        return "unknown"
    qs = [((4 * al) ** l * (2 * al / math.pi) ** 1.5) / r ** 2 for al, r in zip(alphas, rho)]
    if all(abs(q - round(qs[0])) < 1e-9 * max(1, qs[0]) for q in qs) and round(qs[0]) >= 1:
        return f"norm {round(qs[0])}"
    if all(abs(r - rho[0]) < 1e-13 * abs(rho[0]) for r in rho):
        fr = Fraction(rho[0] ** 2).limit_denominator(100000)
        if abs(float(fr) - rho[0] ** 2) < 1e-12:
            return f"const {fr.numerator} {fr.denominator}"
    return "unknown"


def probe_tables():
    """Behaviour of the six fix functions on one shell per type."""
    from iodata.basis import MolecularBasis, Shell
    from iodata.formats import molden as mm

    alphas = [0.7321, 3.1459]
    c_in = [0.61, -0.37]
    basis_tabs = {}
    for fname, fix in BASIS_FIX_FUNCS.items():
        f = getattr(mm, fname)
        tab = {}
        for l, k in PROBE_TYPES + (EXTRA_TYPES if fix != "normalize" else []):
            outs = []
            for mult in (1.0, 2.5):
                sh = Shell(0, [l], [k], np.array(alphas), np.array([[c * mult] for c in c_in]))
                r = f(MolecularBasis([sh], mm.CONVENTIONS, "L2"))
                outs.append(None if r is None else [float(x) for x in r.shells[0].coeffs[:, 0]])
                if r is not None and (len(r.shells) != 1 or r.shells[0].icenter != 0 or list(r.shells[0].angmoms) != [l]
                                      or list(r.shells[0].kinds) != [k]
                                      or [float(x) for x in r.shells[0].exponents] != alphas):
                    outs[-1] = None
                    tab[(l, k)] = "unknown"
            if (l, k) in tab:
                continue
            if outs[0] is None or outs[1] is None:
                tab[(l, k)] = "one" if outs[0] is None and outs[1] is None else "unknown"
            else:
                tab[(l, k)] = _classify_scale(l, alphas, c_in, outs[0], outs[1])
        basis_tabs[fix] = tab
    coeff_tabs = {}
    for fname, fix in COEFF_FIX_FUNCS.items():
        f = getattr(mm, fname)
        tab = {}
        for l, k in PROBE_TYPES + EXTRA_TYPES:
            sh = Shell(0, [l], [k], np.array(alphas), np.array([[c] for c in c_in]))
            r = f(MolecularBasis([sh], mm.CONVENTIONS, "L2"))
            if r is None:
                continue
            ent = []
            for x in r:
                fr = Fraction(float(x) ** 2).limit_denominator(100000)
                if abs(float(fr) - float(x) ** 2) > 1e-12 or x <= 0:
                    fr = Fraction(0)
                ent.append(fr)
            tab[(l, k)] = ent
        coeff_tabs[fix] = tab
    orca_conv = {k: list(v) for k, v in mm._fix_obasis_orca(MolecularBasis([], {}, "L2")).conventions.items()}
    return basis_tabs, coeff_tabs, orca_conv


def _lean_attempt(a):
    def opt(x, pre="."):
        return "none" if x is None else f"some {pre}{x}"
    return ("{ " + f"warn := {opt(a['warn'])}, testBasis := .{a['testBasis']}, testCoeff := .{a['testCoeff']}, "
            f"guardBasis := {str(a['guardBasis']).lower()}, guardCoeff := {str(a['guardCoeff']).lower()}, "
            f"storeBasis := {opt(a['storeBasis'])}, storeCoeff := {opt(a['storeCoeff'])}" + " }")


def _lean_chars(s):
    return "[" + ",".join(f"'{c}'" for c in s) + "]"


def translate(ctx):
    src = (REPO / "iodata" / "formats" / "molden.py").read_text()
    attempts, shape = extract_skeleton(src)
    mk = (REPO / "iodata" / "formats" / "molekel.py").read_text()
    mk_tree = ast.parse(mk)
    mk_load = "\n".join(l.strip() for l in ast.unparse(_src_func(mk_tree, "load_one")).splitlines())
    mk_uses = ("from .molden import CONVENTIONS, _fix_molden_from_buggy_codes" in mk
               and mk_load.rstrip().endswith("_fix_molden_from_buggy_codes(result, lit, norm_threshold)\nreturn result"))
    mo_load = "\n".join(l.strip() for l in ast.unparse(_src_func(ast.parse(src), "load_one")).splitlines())
    mo_uses = "_fix_molden_from_buggy_codes(result, lit, norm_threshold)\nreturn result" in mo_load
    btabs, ctabs, orca_conv = probe_tables()
    L = ["import Iodata.Model.Cascade", "namespace Iodata.Gen.Cascade", "open Iodata.Cascade", ""]
    L.append("/-- attempts of `_fix_molden_from_buggy_codes` in source order (ast walk) -/")
    L.append("def cascade : List Attempt := [\n  " + ",\n  ".join(_lean_attempt(a) for a in attempts) + "]\n")
    L.append("def warnTexts : List String := " + lean_list([a["warnText"] or "" for a in attempts], lean_str) + "\n")
    L.append("/-- the function ends with `raise LoadError` (checked by the translator, which fails otherwise) -/")
    L.append("def finalRaisesLoadError : Bool := true\n")
    L.append("/-- `_is_normalized_properly` is `max_i |c_i^t S c_i - 1| <= norm_threshold` over all alpha and beta orbitals -/")
    L.append(f"def normTestShape : Bool := {str(bool(shape)).lower()}\n")
    L.append(f"def moldenLoadEndsWithCascade : Bool := {str(bool(mo_uses)).lower()}")
    L.append(f"def molekelLoadEndsWithCascade : Bool := {str(bool(mk_uses)).lower()}\n")
    for fix, tab in btabs.items():
        ents = [f"(({l}, '{k}'), .{v})" for (l, k), v in sorted(tab.items())]
        L.append(f"/-- behaviour of the `{[n for n, f in BASIS_FIX_FUNCS.items() if f == fix][0]}` function per shell type (probed) -/")
        L.append(f"def {fix}Table : BasisTable := [\n  " + ",\n  ".join(ents) + "]\n")
    for fix, tab in ctabs.items():
        ents = []
        for (l, k), v in sorted(tab.items()):
            ents.append(f"(({l}, '{k}'), " + lean_list(v, lambda fr: f"({fr.numerator}, {fr.denominator})") + ")")
        L.append(f"/-- squared divisors returned by `{[n for n, f in COEFF_FIX_FUNCS.items() if f == fix][0]}` (probed) -/")
        L.append(f"def {fix}Table : CoeffTable := [\n  " + ",\n  ".join(ents) + "]\n")
    L.append("def tables : Tables where\n  basis\n    | .raw => []\n    | .orca => orcaTable\n    | .psi4old => psi4oldTable\n"
             "    | .turbomole => turbomoleTable\n    | .normalize => normalizeTable\n"
             "  coeff\n    | .raw => []\n    | .cfour => cfourTable\n    | .psi4new => psi4newTable\n")
    ents = [f"(({l}, '{k}'), {lean_list(v, _lean_chars)})" for (l, k), v in sorted(orca_conv.items())]
    L.append("/-- conventions attached to the basis returned by `_fix_obasis_orca` -/")
    L.append("def orcaConventions : List (ShellType × List (List Char)) := [\n  " + ",\n  ".join(ents) + "]\n")
    from iodata.formats import molden as mm

    ents = [f"(({l}, '{k}'), {lean_list(list(v), _lean_chars)})" for (l, k), v in sorted(mm.CONVENTIONS.items())]
    L.append("/-- `iodata.formats.molden.CONVENTIONS` -/")
    L.append("def moldenConventions : List (ShellType × List (List Char)) := [\n  " + ",\n  ".join(ents) + "]\n")
    L.append("end Iodata.Gen.Cascade\n")
    ctx.gen_write("Cascade", "\n".join(L))
