"""C05 — Molden/Molekel files from quirky programs load as the true wavefunction (repair cascade)."""

from __future__ import annotations

import ast
import json
import math
import multiprocessing as mp
import random
import warnings
from fractions import Fraction
from pathlib import Path

import numpy as np

from .. import gto
from .. import vendorfiles as vf
from ..engine import REPO, lean_list, lean_str

MODULES = ["Iodata.Props.C05"]
RULE = (
    "random true wavefunctions (1-3 atoms, 1-4 segmented shells per atom, s..g Cartesian or pure and pure h, 1-3 "
    "primitives, restricted/unrestricted COMPLETE orbital sets = Loewdin orbitals S^-1/2 times a random orthogonal matrix, "
    "S from the harness own overlap evaluator, min overlap eigenvalue >= 2e-3, orthonormal to 1e-11) x vendor encoding by an "
    "independent encoder (standard, ORCA, PSI4<=1.0, Turbomole, CFOUR 2.1, unnormalised contractions, PSI4<=1.3.2 with "
    "and without unnormalised contractions) x {Molden AU, Molden Angs, MKL} x norm_threshold in {default,1e-3,1e-5,1e-6} "
    "x 12/14/17 significant digits; plus corrupted encodings (per-primitive scale errors in contracted shells, per-row "
    "MO scale errors, ORCA quirk applied twice) and the repository's Molden/MKL fixtures. cascade stream: shell-type "
    "list + the recorded real norm-test booleans -> executed tests, branch, warning class, stored basis/coefficients. "
    "non-trivial = the file is not the standard encoding (a correction or a rejection is at stake); distinct = "
    "distinct (shell types, test outcomes) for the cascade stream, distinct generated file for the search"
)
TRUSTED = [
    "harness/vh/gto.py: own Gauss-Hermite overlap evaluator and real solid harmonics (cross-checked against the "
    "standard-encoded files: they must load without correction)",
    "harness/vh/vendorfiles.py: the vendor encoders (hand-written from the documented deviations) and text writers",
    "translator for Gen/Cascade.lean: ast walk of _fix_molden_from_buggy_codes (attempt order, guards, tested and stored "
    "variables, warning texts) and behavioural probing of the six _fix_* functions on one shell per type",
]
ASSUMPTIONS = [
    "the norm test is an oracle boolean in the Lean model; that the branch taken is the RIGHT one for a vendor is "
    "numerical and only searched (random files), not proved",
    "mo.kind is restricted/unrestricted and all shells are segmented (what the two loaders produce); the two "
    "LoadError pre-checks for other inputs are not modelled",
    "text scanning of Molden/MKL is not modelled (exercised by the search only)",
]
TIME_LIMIT = {"quick": 900, "thorough": 3600}

DATA = REPO / "iodata" / "test" / "data"
PROBE_TYPES = [(0, "c"), (1, "c"), (2, "c"), (2, "p"), (3, "c"), (3, "p"), (4, "c"), (4, "p"), (5, "p")]
EXTRA_TYPES = [(5, "c"), (6, "c"), (6, "p")]  # "do not correct anything unless we know how"

BASIS_FIX_FUNCS = {
    "_fix_obasis_orca": "orca",
    "_fix_obasis_psi4": "psi4old",
    "_fix_obasis_turbomole": "turbomole",
    "_fix_obasis_normalize_contractions": "normalize",
}
COEFF_FIX_FUNCS = {"_fix_mo_coeffs_cfour": "cfour", "_fix_mo_coeffs_psi4": "psi4new"}
WARN_KEYS = [("PSI4 <= 1.3.2", "psi4new"), ("PSI4 < 1.0", "psi4old"), ("ORCA", "orca"), ("Turbomole", "turbomole"),
             ("CFOUR", "cfour"), ("unnormalized contractions", "unnorm")]


# =====================================================================================================
# T1: translator
def _src_func(tree, name):
    for node in tree.body:
        if isinstance(node, ast.FunctionDef) and node.name == name:
            return node
    raise ValueError(f"function {name} not found in molden.py")


def _is_norm_call(node):
    return isinstance(node, ast.Call) and isinstance(node.func, ast.Name) and node.func.id == "_is_normalized_properly"


def _not_none_name(node):
    if (isinstance(node, ast.Compare) and len(node.ops) == 1 and isinstance(node.ops[0], ast.IsNot)
            and isinstance(node.left, ast.Name) and isinstance(node.comparators[0], ast.Constant)
            and node.comparators[0].value is None):
        return node.left.id
    return None


def extract_skeleton(src: str):
    """Ordered attempts of _fix_molden_from_buggy_codes.  Raises when the function has another shape."""
    tree = ast.parse(src)
    fn = _src_func(tree, "_fix_molden_from_buggy_codes")
    env = {}  # variable -> ("basis", fix) | ("corr", fix) | ("coef", fix, spin)
    attempts = []
    state = {"final_raise": False, "done": False}

    def expr_kind(node):
        """Classify the value of an expression used as basis or coefficient argument."""
        if isinstance(node, ast.Name):
            if node.id not in env:
                raise ValueError(f"unknown variable {node.id} in the cascade")
            return env[node.id]
        if isinstance(node, ast.Constant) and node.value is None:
            return ("coef", "raw", "b")
        raise ValueError("unsupported expression " + ast.unparse(node))

    def coef_expr(node, spin):
        # coeffsX / corr[:, np.newaxis]      or      None if coeffsb is None else coeffsb / corr[:, np.newaxis]
        if isinstance(node, ast.IfExp):
            if ast.unparse(node.test) != "coeffsb is None" or ast.unparse(node.body) != "None":
                raise ValueError("unsupported beta expression " + ast.unparse(node))
            node = node.orelse
        if (isinstance(node, ast.BinOp) and isinstance(node.op, ast.Div) and isinstance(node.left, ast.Name)
                and node.left.id == "coeffs" + spin and isinstance(node.right, ast.Subscript)
                and isinstance(node.right.value, ast.Name) and env.get(node.right.value.id, ("",))[0] == "corr"
                and ast.unparse(node.right.slice) in ("(slice(None, None, None), np.newaxis)", ":, np.newaxis",
                                                      "(:, np.newaxis)")):
            return ("coef", env[node.right.value.id][1], spin)
        raise ValueError("unsupported coefficient expression " + ast.unparse(node))

    def handle_test(test, body, guards):
        """An `if <norm test>:` statement."""
        tests = [test]
        g = list(guards)
        if isinstance(test, ast.BoolOp) and isinstance(test.op, ast.And):
            tests = list(test.values)
        call = None
        for t in tests:
            nn = _not_none_name(t)
            if nn is not None:
                if call is not None:
                    raise ValueError("guard after the norm test")
                g.append(nn)
            elif _is_norm_call(t):
                call = t
            else:
                raise ValueError("unsupported condition " + ast.unparse(t))
        if call is None:
            raise ValueError("if without norm test: " + ast.unparse(test))
        if len(call.args) != 5 or call.keywords:
            raise ValueError("norm test call has another signature: " + ast.unparse(call))
        if ast.unparse(call.args[1]) != "atcoords" or ast.unparse(call.args[4]) != "norm_threshold":
            raise ValueError("norm test is not called with atcoords / norm_threshold: " + ast.unparse(call))
        kb = expr_kind(call.args[0])
        ka = expr_kind(call.args[2])
        kbb = expr_kind(call.args[3])
        if kb[0] != "basis" or ka[0] != "coef" or kbb[0] != "coef" or ka[2] != "a" or kbb[2] != "b" or ka[1] != kbb[1]:
            raise ValueError("norm test arguments are inconsistent: " + ast.unparse(call))
        att = {"testBasis": kb[1], "testCoeff": ka[1], "guardBasis": False, "guardCoeff": False, "warn": None,
               "warnText": None, "storeBasis": None, "storeCoeff": None}
        for name in g:
            k = env.get(name)
            if k is None:
                raise ValueError("guard on unknown variable " + name)
            if k[0] == "basis" and k[1] == kb[1]:
                att["guardBasis"] = True
            elif k[0] == "corr" and k[1] == ka[1]:
                att["guardCoeff"] = True
            else:
                raise ValueError(f"guard on {name} does not belong to what is tested")
        # body
        if not body or not isinstance(body[-1], ast.Return) or body[-1].value is not None:
            raise ValueError("a successful attempt does not end with a bare return")
        for st in body[:-1]:
            if isinstance(st, ast.Expr) and isinstance(st.value, ast.Call) and ast.unparse(st.value.func) == "warn":
                w = st.value.args[0]
                if not (isinstance(w, ast.Call) and ast.unparse(w.func) == "LoadWarning"
                        and isinstance(w.args[0], ast.Constant) and isinstance(w.args[0].value, str)):
                    raise ValueError("unsupported warning " + ast.unparse(st))
                if att["warn"] is not None:
                    raise ValueError("two warnings in one attempt")
                att["warnText"] = w.args[0].value
                hits = [c for k, c in WARN_KEYS if k in w.args[0].value]
                att["warn"] = hits[0] if hits else "other"
            elif isinstance(st, ast.Assign) and ast.unparse(st.targets[0]) == "result['obasis']":
                k = expr_kind(st.value)
                if k[0] != "basis":
                    raise ValueError("result['obasis'] assigned a non-basis")
                att["storeBasis"] = k[1]
            elif isinstance(st, ast.If) and ast.unparse(st.test) == "result['mo'].kind == 'restricted'":
                got = {}
                for sub in st.body + st.orelse:
                    if not (isinstance(sub, ast.Assign) and len(sub.targets) == 1):
                        raise ValueError("unsupported statement " + ast.unparse(sub))
                    got[ast.unparse(sub.targets[0])] = expr_kind(sub.value)
                want = {"result['mo'].coeffs[:]": "a", "result['mo'].coeffsa[:]": "a", "result['mo'].coeffsb[:]": "b"}
                if set(got) != set(want):
                    raise ValueError("coefficient store has another shape: " + ", ".join(sorted(got)))
                fixes = {v[1] for v in got.values()}
                if len(fixes) != 1 or any(v[0] != "coef" or v[2] != want[k] for k, v in got.items()):
                    raise ValueError("coefficient store mixes variables")
                att["storeCoeff"] = fixes.pop()
            else:
                raise ValueError("unsupported statement in a successful attempt: " + ast.unparse(st)[:80])
        attempts.append(att)

    def walk(stmts, guards):
        for st in stmts:
            if state["final_raise"]:
                raise ValueError("statements after the final raise")
            if isinstance(st, ast.Expr) and isinstance(st.value, ast.Constant):
                continue  # docstring
            if isinstance(st, ast.Assign) and len(st.targets) == 1 and isinstance(st.targets[0], ast.Name):
                tgt = st.targets[0].id
                v = st.value
                txt = ast.unparse(v)
                if txt == "result['obasis']":
                    env[tgt] = ("basis", "raw")
                elif txt == "result['atcoords']":
                    env[tgt] = ("other",)
                elif isinstance(v, ast.Call) and isinstance(v.func, ast.Name) and v.func.id in BASIS_FIX_FUNCS:
                    if ast.unparse(v.args[0]) != "obasis" or len(v.args) != 1:
                        raise ValueError("basis fix not applied to the raw obasis: " + txt)
                    env[tgt] = ("basis", BASIS_FIX_FUNCS[v.func.id])
                elif isinstance(v, ast.Call) and isinstance(v.func, ast.Name) and v.func.id in COEFF_FIX_FUNCS:
                    if ast.unparse(v.args[0]) != "obasis" or len(v.args) != 1:
                        raise ValueError("coefficient fix not derived from the raw obasis: " + txt)
                    env[tgt] = ("corr", COEFF_FIX_FUNCS[v.func.id])
                elif tgt.startswith("coeffsa_"):
                    env[tgt] = coef_expr(v, "a")
                elif tgt.startswith("coeffsb_"):
                    env[tgt] = coef_expr(v, "b")
                else:
                    raise ValueError("unsupported assignment " + ast.unparse(st)[:80])
                continue
            if isinstance(st, ast.If):
                txt = ast.unparse(st.test)
                if txt == "result['mo'].kind == 'restricted'" and not attempts:
                    # the header selecting coeffsa/coeffsb
                    hdr = ast.unparse(st)
                    for need in ("coeffsa = result['mo'].coeffs", "coeffsb = None", "coeffsa = result['mo'].coeffsa",
                                 "coeffsb = result['mo'].coeffsb", "raise LoadError"):
                        if need not in hdr:
                            raise ValueError("header of the cascade changed: missing " + need)
                    env["coeffsa"] = ("coef", "raw", "a")
                    env["coeffsb"] = ("coef", "raw", "b")
                    continue
                if txt.startswith("any((shell.ncon != 1 for shell in obasis.shells))") and not attempts:
                    continue
                nn = _not_none_name(st.test)
                if nn is not None:
                    if st.orelse:
                        raise ValueError("guard with else branch")
                    walk(st.body, guards + [nn])
                    continue
                if st.orelse:
                    raise ValueError("norm test with else branch")
                handle_test(st.test, st.body, guards)
                continue
            if isinstance(st, ast.Raise) and not guards:
                if not ast.unparse(st.exc).startswith("LoadError("):
                    raise ValueError("final raise is not LoadError")
                state["final_raise"] = True
                continue
            raise ValueError("unsupported statement " + ast.unparse(st)[:80])

    walk(fn.body, [])
    if not state["final_raise"]:
        raise ValueError("the cascade does not end with raise LoadError")
    # the norm test itself
    nf = _src_func(tree, "_is_normalized_properly")
    txt = ast.unparse(nf)
    shape = (ast.unparse(nf.body[-1]) == "return error_max <= norm_threshold"
             and "error_max = max(error_max, abs(norm - 1))" in txt
             and "norm = np.dot(vec, np.dot(olp, vec))" in txt
             and "olp = compute_overlap(obasis, atcoords)" in txt
             and "error_max = 0.0" in txt)
    return attempts, shape


def _classify_scale(l, alphas, c_in, out1, out2):
    """Scale descriptor of a basis fix on one shell type from two calls (second with 2.5 x coefficients)."""
    rho = [a / b for a, b in zip(c_in, out1)]
    if all(abs(r - 1.0) < 1e-14 for r in rho):
        return "one"
    if all(abs(a - b) < 1e-12 * abs(a) for a, b in zip(out1, out2)):
        return "unit"
    if any(abs(2.5 * a - b) > 1e-12 * abs(b) for a, b in zip(out1, out2)):
        return "unknown"
    qs = [((4 * al) ** l * (2 * al / math.pi) ** 1.5) / r ** 2 for al, r in zip(alphas, rho)]
    if all(abs(q - round(qs[0])) < 1e-9 * max(1, qs[0]) for q in qs) and round(qs[0]) >= 1:
        return f"norm {round(qs[0])}"
    if all(abs(r - rho[0]) < 1e-13 * abs(rho[0]) for r in rho):
        fr = Fraction(rho[0] ** 2).limit_denominator(100000)
        if abs(float(fr) - rho[0] ** 2) < 1e-12:
            return f"const {fr.numerator} {fr.denominator}"
    return "unknown"


def probe_tables():
    """Behaviour of the six fix functions on one shell per type."""
    from iodata.basis import MolecularBasis, Shell
    from iodata.formats import molden as mm

    alphas = [0.7321, 3.1459]
    c_in = [0.61, -0.37]
    basis_tabs = {}
    for fname, fix in BASIS_FIX_FUNCS.items():
        f = getattr(mm, fname)
        tab = {}
        for l, k in PROBE_TYPES + (EXTRA_TYPES if fix != "normalize" else []):
            outs = []
            for mult in (1.0, 2.5):
                sh = Shell(0, [l], [k], np.array(alphas), np.array([[c * mult] for c in c_in]))
                r = f(MolecularBasis([sh], mm.CONVENTIONS, "L2"))
                outs.append(None if r is None else [float(x) for x in r.shells[0].coeffs[:, 0]])
                if r is not None and (len(r.shells) != 1 or r.shells[0].icenter != 0 or list(r.shells[0].angmoms) != [l]
                                      or list(r.shells[0].kinds) != [k]
                                      or [float(x) for x in r.shells[0].exponents] != alphas):
                    outs[-1] = None
                    tab[(l, k)] = "unknown"
            if (l, k) in tab:
                continue
            if outs[0] is None or outs[1] is None:
                tab[(l, k)] = "one" if outs[0] is None and outs[1] is None else "unknown"
            else:
                tab[(l, k)] = _classify_scale(l, alphas, c_in, outs[0], outs[1])
        basis_tabs[fix] = tab
    coeff_tabs = {}
    for fname, fix in COEFF_FIX_FUNCS.items():
        f = getattr(mm, fname)
        tab = {}
        for l, k in PROBE_TYPES + EXTRA_TYPES:
            sh = Shell(0, [l], [k], np.array(alphas), np.array([[c] for c in c_in]))
            r = f(MolecularBasis([sh], mm.CONVENTIONS, "L2"))
            if r is None:
                continue
            ent = []
            for x in r:
                fr = Fraction(float(x) ** 2).limit_denominator(100000)
                if abs(float(fr) - float(x) ** 2) > 1e-12 or x <= 0:
                    fr = Fraction(0)
                ent.append(fr)
            tab[(l, k)] = ent
        coeff_tabs[fix] = tab
    orca_conv = {k: list(v) for k, v in mm._fix_obasis_orca(MolecularBasis([], {}, "L2")).conventions.items()}
    return basis_tabs, coeff_tabs, orca_conv


def _lean_attempt(a):
    def opt(x, pre="."):
        return "none" if x is None else f"some {pre}{x}"
    return ("{ " + f"warn := {opt(a['warn'])}, testBasis := .{a['testBasis']}, testCoeff := .{a['testCoeff']}, "
            f"guardBasis := {str(a['guardBasis']).lower()}, guardCoeff := {str(a['guardCoeff']).lower()}, "
            f"storeBasis := {opt(a['storeBasis'])}, storeCoeff := {opt(a['storeCoeff'])}" + " }")


def _lean_chars(s):
    return "[" + ",".join(f"'{c}'" for c in s) + "]"


def translate(ctx):
    src = (REPO / "iodata" / "formats" / "molden.py").read_text()
    attempts, shape = extract_skeleton(src)
    mk = (REPO / "iodata" / "formats" / "molekel.py").read_text()
    mk_tree = ast.parse(mk)
    mk_load = "\n".join(l.strip() for l in ast.unparse(_src_func(mk_tree, "load_one")).splitlines())
    mk_uses = ("from .molden import CONVENTIONS, _fix_molden_from_buggy_codes" in mk
               and mk_load.rstrip().endswith("_fix_molden_from_buggy_codes(result, lit, norm_threshold)\nreturn result"))
    mo_load = "\n".join(l.strip() for l in ast.unparse(_src_func(ast.parse(src), "load_one")).splitlines())
    mo_uses = "_fix_molden_from_buggy_codes(result, lit, norm_threshold)\nreturn result" in mo_load
    btabs, ctabs, orca_conv = probe_tables()
    L = ["import Iodata.Model.Cascade", "namespace Iodata.Gen.Cascade", "open Iodata.Cascade", ""]
    L.append("/-- attempts of `_fix_molden_from_buggy_codes` in source order (ast walk) -/")
    L.append("def cascade : List Attempt := [\n  " + ",\n  ".join(_lean_attempt(a) for a in attempts) + "]\n")
    L.append("def warnTexts : List String := " + lean_list([a["warnText"] or "" for a in attempts], lean_str) + "\n")
    L.append("/-- the function ends with `raise LoadError` (checked by the translator, which fails otherwise) -/")
    L.append("def finalRaisesLoadError : Bool := true\n")
    L.append("/-- `_is_normalized_properly` is `max_i |c_i^t S c_i - 1| <= norm_threshold` over all alpha and beta orbitals -/")
    L.append(f"def normTestShape : Bool := {str(bool(shape)).lower()}\n")
    L.append(f"def moldenLoadEndsWithCascade : Bool := {str(bool(mo_uses)).lower()}")
    L.append(f"def molekelLoadEndsWithCascade : Bool := {str(bool(mk_uses)).lower()}\n")
    for fix, tab in btabs.items():
        ents = [f"(({l}, '{k}'), .{v})" for (l, k), v in sorted(tab.items())]
        L.append(f"/-- behaviour of the `{[n for n, f in BASIS_FIX_FUNCS.items() if f == fix][0]}` function per shell type (probed) -/")
        L.append(f"def {fix}Table : BasisTable := [\n  " + ",\n  ".join(ents) + "]\n")
    for fix, tab in ctabs.items():
        ents = []
        for (l, k), v in sorted(tab.items()):
            ents.append(f"(({l}, '{k}'), " + lean_list(v, lambda fr: f"({fr.numerator}, {fr.denominator})") + ")")
        L.append(f"/-- squared divisors returned by `{[n for n, f in COEFF_FIX_FUNCS.items() if f == fix][0]}` (probed) -/")
        L.append(f"def {fix}Table : CoeffTable := [\n  " + ",\n  ".join(ents) + "]\n")
    L.append("def tables : Tables where\n  basis\n    | .raw => []\n    | .orca => orcaTable\n    | .psi4old => psi4oldTable\n"
             "    | .turbomole => turbomoleTable\n    | .normalize => normalizeTable\n"
             "  coeff\n    | .raw => []\n    | .cfour => cfourTable\n    | .psi4new => psi4newTable\n")
    ents = [f"(({l}, '{k}'), {lean_list(v, _lean_chars)})" for (l, k), v in sorted(orca_conv.items())]
    L.append("/-- conventions attached to the basis returned by `_fix_obasis_orca` -/")
    L.append("def orcaConventions : List (ShellType × List (List Char)) := [\n  " + ",\n  ".join(ents) + "]\n")
    from iodata.formats import molden as mm

    ents = [f"(({l}, '{k}'), {lean_list(list(v), _lean_chars)})" for (l, k), v in sorted(mm.CONVENTIONS.items())]
    L.append("/-- `iodata.formats.molden.CONVENTIONS` -/")
    L.append("def moldenConventions : List (ShellType × List (List Char)) := [\n  " + ",\n  ".join(ents) + "]\n")
    L.append("end Iodata.Gen.Cascade\n")
    ctx.gen_write("Cascade", "\n".join(L))


# =====================================================================================================
# shared execution of the real loader on generated files (used by T2 and S)
ATT_OF = {("raw", "raw"): "standard", ("orca", "raw"): "orca", ("psi4_10", "raw"): "psi4_10",
          ("turbomole", "raw"): "turbomole", ("raw", "cfour"): "cfour", ("unnorm", "raw"): "unnorm",
          ("unnorm", "psi4_132"): "psi4_132"}
ORDER = vf.BRANCHES  # attempt order of the reference cascade

# branch with which each repository fixture loads today; the vendor is in the file name / header.
# nh3_psi4_1.0 and psi4_*_cc_pvqz are PSI4 >= 1.0 files whose only deviation is unnormalised contractions;
# the *_sph_cfour d/f/g files carry no [5D]/[7F]/[9G] tag and are therefore read as Cartesian.
FIXTURES = {
    "F.molden": "psi4_10", "be_cisd_321g_psi4_singlet.molden": "standard", "ethanol.mkl": "orca",
    "h2_sto3g.mkl": "orca", "h2o.molden.input": "orca", "h2o_ccpvdz_cfour.molden": "cfour",
    "h2o_psi4_1.3.2_6-31G_d_cart.molden": "psi4_132", "h_donly_cart_cfour.molden": "cfour",
    "h_donly_sph_cfour.molden": "cfour", "h_fonly_cart_cfour.molden": "cfour", "h_fonly_sph_cfour.molden": "cfour",
    "h_gonly_cart_cfour.molden": "cfour", "h_gonly_sph_cfour.molden": "cfour", "h_ponly_cart_cfour.molden": "standard",
    "h_ponly_sph_cfour.molden": "standard", "h_sonly_cart_cfour.molden": "standard",
    "h_sonly_sph_cfour.molden": "standard", "he2_ghost_psi4_1.0.molden": "standard", "li2.mkl": "orca",
    "li2.molden.input": "orca", "neon_turbomole_def2-qzvp.molden": "turbomole", "nh3_molden_cart.molden": "standard",
    "nh3_molden_pure.molden": "standard", "nh3_molpro2012.molden": "standard", "nh3_orca.molden": "orca",
    "nh3_psi4.molden": "psi4_10", "nh3_psi4_1.0.molden": "unnorm",
    "nh3_psi4_1.3.2_aug_cc_pvqz_cart.molden": "psi4_132", "nh3_turbomole.molden": "turbomole",
    "orca_cuh_cc_pvqz_pure.molden": "orca", "orca_zn_cc_pvqz_pure.molden": "orca",
    "psi4_cuh_cc_pvqz_pure.molden": "unnorm", "psi4_mn_cc_pvqz_pure.molden": "unnorm",
    "psi4_zn_cc_pvqz_pure.molden": "unnorm", "water_wrong_spinmult.mkl": "standard",
}
BIG = ["nh3_psi4_1.3.2_aug_cc_pvqz_cart.molden", "orca_cuh_cc_pvqz_pure.molden", "orca_zn_cc_pvqz_pure.molden",
       "psi4_cuh_cc_pvqz_pure.molden", "psi4_mn_cc_pvqz_pure.molden", "psi4_zn_cc_pvqz_pure.molden"]


def _types(shells):
    return [f"{sh['l']}{sh['kind']}" for sh in shells]


def _trace_summary(trace):
    tests = [(t[2], t[3], t[1]) for t in trace if t[0] == "norm"]
    fixes = {t[1]: t[2] for t in trace if t[0] == "fix"}
    return tests, fixes


def build_case(seed, mode):
    """Deterministic in (seed, mode)."""
    rng = random.Random(f"c05-{mode}-{seed}")
    vendor = rng.choice(vf.VENDORS)
    fmt = rng.choice(["molden", "molden", "mkl"])
    while True:
        case = vf.gen_true(rng, vendor, fmt)
        if case is not None:
            break
    enc = vf.encode(case, vendor, rng)
    tag = vf.corrupt(case, enc, rng) if mode == "corrupt" else None
    thr = rng.choice([None, None, 1e-3, 1e-5, 1e-6])
    digits = rng.choice([12, 14, 17])
    text = (vf.write_molden if fmt == "molden" else vf.write_mkl)(case, enc, rng, digits)
    return case, enc, tag, thr, digits, text


def _store_matches(case, enc, data):
    """Which of the harness's own fix variants the returned basis / coefficients equal."""
    bm, cm = [], []
    got = [[float(x) for x in s.coeffs[:, 0]] for s in data.obasis.shells]
    conv = data.obasis.conventions
    rows = vf.row_labels(enc["shells"])
    for name in ("raw", "orca", "psi4_10", "turbomole", "unnorm"):
        if name == "raw":
            sh2, neg = enc["shells"], None
        else:
            sh2, _, neg = vf.own_fix(name, enc["shells"])
            if sh2 is None:
                continue
        same = len(got) == len(sh2) and all(
            len(a) == len(b["coefs"]) and np.allclose(a, b["coefs"], rtol=1e-9, atol=0) for a, b in zip(got, sh2))
        # conventions: signs of the labels must be the variant's
        signs_ok = True
        for r, (i, l, k, lab) in enumerate(rows):
            want_neg = neg is not None and neg[r] < 0
            labs = conv.get((l, k))
            if labs is None:
                signs_ok = False
                break
            mine = gto.molden_labels(l, k)
            j = mine.index(lab)
            if j >= len(labs) or labs[j].lstrip("-") != lab or labs[j].startswith("-") != want_neg:
                signs_ok = False
                break
        if same and signs_ok:
            bm.append(name)
    for name in ("raw", "cfour", "psi4_132"):
        div = None
        if name != "raw":
            _, div, _ = vf.own_fix(name, enc["shells"])
            if div is None:
                continue
        ok = True
        for C, Cl in ((enc["Ca"], data.mo.coeffsa), (enc["Cb"], data.mo.coeffsb if data.mo.kind == "unrestricted" else None)):
            if C is None:
                continue
            C2 = C if div is None else C / div[:, None]
            if Cl is None or Cl.shape != C2.shape or not np.allclose(Cl, C2, rtol=1e-9, atol=1e-13):
                ok = False
        if ok:
            cm.append(name)
    return bm, cm


def work(arg):
    """Runs in a worker process: one generated file through the real loader + all own evaluations."""
    seed, mode = arg
    try:
        return _work(seed, mode)
    except Exception as exc:  # noqa: BLE001 - report, never lose a case silently
        import traceback

        return {"seed": seed, "mode": mode, "crash": traceback.format_exc()[-1500:]}


def _work(seed, mode):
    case, enc, tag, thr, digits, text = build_case(seed, mode)
    data, err, warns, trace = vf.run_loader(text, case["fmt"], thr)
    tests, fixes = _trace_summary(trace)
    own = vf.own_predicates(case, enc)
    rec = {
        "seed": seed, "mode": mode, "vendor": case["vendor"], "fmt": case["fmt"], "unit": case["unit"], "thr": thr,
        "digits": digits, "types": _types(case["shells"]), "natom": len(case["zs"]), "kind": case["kind"],
        "nbasis": int(case["Ca"].shape[0]), "tag": tag, "err": err, "warns": vf.warn_classes(warns),
        "tests": tests, "fixes": fixes, "own": own,
        "quirky": vf.is_quirky(case["vendor"], case["shells"]),
        "expected": vf.expected_branch(case["vendor"], case["shells"]),
        "cmp": None, "store": None,
    }
    if data is not None:
        if mode == "vendor":
            rec["cmp"] = vf.compare_loaded(case, data)
        try:
            rec["store"] = _store_matches(case, enc, data)
        except Exception as exc:  # noqa: BLE001
            rec["store"] = (["error:" + type(exc).__name__], [])
        if mode == "corrupt":
            # orbitals must at least be normalised w.r.t. what was returned (own evaluator)
            rec["cmp"] = _norm_check(case, data, thr or 1e-4)
    return rec


def _norm_check(case, data, thr):
    ps = vf.primset(case)
    lsh = [{"l": int(s.angmoms[0]), "kind": s.kinds[0], "coefs": [float(x) for x in s.coeffs[:, 0]]} for s in data.obasis.shells]
    if [(s["l"], s["kind"]) for s in lsh] != [(s["l"], s["kind"]) for s in case["shells"]]:
        return ("basis-structure", "shell types changed")
    conv = data.obasis.conventions
    T = gto.basis_matrix(ps, lsh, lambda l, k: conv[(l, k)])
    S = T @ ps.overlap() @ T.T
    worst = 0.0
    for C in ([data.mo.coeffs] if data.mo.kind == "restricted" else [data.mo.coeffsa, data.mo.coeffsb]):
        worst = max(worst, float(np.abs(np.einsum("ij,ik,kj->j", C, S, C) - 1).max()))
    if worst > 1.5 * thr + 1e-9:
        return ("loaded-unnormalised", f"max norm error {worst:.3e} > threshold {thr:g}")
    return None


def fixture_work(name):
    import time

    t0 = time.time()
    p = DATA / name
    fmt = "mkl" if p.suffix == ".mkl" else "molden"
    data, err, warns, trace = vf.run_loader(p.read_text(), fmt, None)
    tests, fixes = _trace_summary(trace)
    rec = {"name": name, "err": err, "warns": vf.warn_classes(warns), "tests": tests, "fixes": fixes,
           "types": None, "norm": None, "secs": round(time.time() - t0, 2)}
    if data is not None:
        rec["types"] = [f"{int(s.angmoms[0])}{s.kinds[0]}" for s in data.obasis.shells]
        if data.obasis.nbasis <= 120:
            # own norm check of what was returned
            ps = gto.PrimSet([(data.atcoords[s.icenter], int(s.angmoms[0]), [float(x) for x in s.exponents])
                              for s in data.obasis.shells])
            lsh = [{"l": int(s.angmoms[0]), "kind": s.kinds[0], "coefs": [float(x) for x in s.coeffs[:, 0]]}
                   for s in data.obasis.shells]
            conv = data.obasis.conventions
            T = gto.basis_matrix(ps, lsh, lambda l, k: conv[(l, k)])
            S = T @ ps.overlap() @ T.T
            worst = 0.0
            for C in ([data.mo.coeffs] if data.mo.kind == "restricted" else [data.mo.coeffsa, data.mo.coeffsb]):
                worst = max(worst, float(np.abs(np.einsum("ij,ik,kj->j", C, S, C) - 1).max()))
            rec["norm"] = worst
    return rec


def _pool_map(fn, args):
    if not args:
        return []
    n = min(16, mp.cpu_count() or 1, len(args))
    with mp.get_context("fork").Pool(n) as pool:
        return pool.map(fn, args, chunksize=max(1, min(8, len(args) // (4 * n) or 1)))


def _ensure_runs(ctx, extra=False):
    """Run the generated cases once per check (both T2 and S read them)."""
    st = ctx.__dict__.setdefault("_c05", {"recs": [], "fix": None, "round": 0})
    if st["fix"] is None:
        names = sorted(FIXTURES)
        if not ctx.thorough:
            big = sorted(BIG)
            keep = {big[(ctx.seed + i) % len(big)] for i in range(2)}
            names = [n for n in names if n not in BIG or n in keep]
        present = [n for n in names if (DATA / n).exists()]
        st["missing"] = [n for n in names if n not in present]
        st["unlisted"] = sorted(p.name for p in DATA.iterdir()
                                if (p.suffix in (".molden", ".mkl") or p.name.endswith(".molden.input"))
                                and p.name not in FIXTURES)
        # big fixtures first so that they overlap with everything else
        present.sort(key=lambda n: (n not in BIG, n))
        nv, nc = ctx.n(1400, 24000), ctx.n(500, 8000)
        seeds = [(ctx.rng.getrandbits(48), "vendor") for _ in range(nv)] + [(ctx.rng.getrandbits(48), "corrupt") for _ in range(nc)]
        jobs = [("fixture", n) for n in present] + [("case", s) for s in seeds]
        out = _pool_map(_dispatch, jobs)
        st["fix"] = [r for (k, _), r in zip(jobs, out) if k == "fixture"]
        st["recs"] = [r for (k, _), r in zip(jobs, out) if k == "case"]
    if extra and st["round"] == 0:
        st["round"] = 1
        nv, nc = ctx.n(2000, 24000), ctx.n(600, 8000)
        seeds = [(ctx.rng.getrandbits(48), "vendor") for _ in range(nv)] + [(ctx.rng.getrandbits(48), "corrupt") for _ in range(nc)]
        st["recs"] += _pool_map(work, seeds)
    return st


def _dispatch(job):
    kind, arg = job
    return fixture_work(arg) if kind == "fixture" else work(arg)


# =====================================================================================================
# T2: correspondence with the Lean cascade
def _bits_and_impl(rec_tests, own, thr, types):
    """ok bits for all seven attempts (real where executed, own elsewhere) and the implementation's tests string."""
    real = {}
    for b, c, ok in rec_tests:
        att = ATT_OF.get((b, c))
        if att is not None and att not in real:
            real[att] = ok
    inv = {v: k for k, v in ATT_OF.items()}
    ents = []
    for att in ORDER:
        if att in real:
            bit = real[att]
        else:
            e = None if own is None else own.get(att)
            bit = e is not None and e <= thr
        ents.append(f"{inv[att][0]}/{inv[att][1]}:{int(bit)}")
    bits = ",".join(ents)
    tests = ",".join(f"{b}/{c}:{int(ok)}" for b, c, ok in rec_tests)
    return bits, tests


def _impl_line(tests, err, warns, store, model_line):
    if err is not None:
        return f"tests={tests} out={err}"
    lw = [c for cls, c in warns if cls == "LoadWarning" and not c.startswith("other:")]
    others = [c for cls, c in warns if not (cls == "LoadWarning" and not c.startswith("other:"))]
    w = "none" if not lw else "+".join(lw)
    idx = ORDER.index(lw[0]) if len(lw) == 1 and lw[0] in ORDER else (0 if not lw else -1)
    # store: echo the model's claim iff the returned object equals that variant (own evaluation)
    claim = None
    if " store=" in model_line:
        claim = model_line.split(" store=")[1].strip()
    if store is None:
        st = "unchecked"
    else:
        bm, cm = store
        if claim is not None and "/" in claim and claim.split("/")[0] in bm and claim.split("/")[1] in cm:
            st = claim
        else:
            st = "MISMATCH:" + "|".join(bm) + "/" + "|".join(cm)
    return f"tests={tests} out={idx}:{w} store={st}"


def correspond(ctx):
    st = _ensure_runs(ctx)
    reqs, meta = [], []
    for r in st["recs"]:
        if "crash" in r:
            raise_infra(r)
        thr = r["thr"] or 1e-4
        bits, tests = _bits_and_impl(r["tests"], r["own"], thr, r["types"])
        reqs.append(f"cascade {','.join(r['types'])} {bits}")
        meta.append((r, tests, f"{r['mode']}:{r['vendor']}/{r['fmt']}->" + (r["err"] or "+".join(c for _, c in r["warns"]) or "standard")))
    for f in st["fix"]:
        if f["types"] is None:
            continue
        bits, tests = _bits_and_impl(f["tests"], None, 1e-4, f["types"])
        reqs.append(f"cascade {','.join(f['types'])} {bits}")
        fw = [(c, k) for c, k in f["warns"] if not k.startswith("other:")]  # the spin-multiplicity warning is not the cascade's
        meta.append(({"err": f["err"], "warns": fw, "store": None, "quirky": bool(fw)}, tests, "fixture:" + f["name"]))
    model = ctx.driver(reqs)
    impl, nontriv, classes = [], [], []
    for (r, tests, cls), ml in zip(meta, model):
        line = _impl_line(tests, r["err"], r["warns"], r.get("store"), ml)
        if r.get("store") is None and " store=" in ml and r["err"] is None:
            line = line.replace("store=unchecked", "store=" + ml.split(" store=")[1].strip())
        impl.append(line)
        nontriv.append(bool(r.get("quirky", True)) or r["err"] is not None)
        classes.append(cls)
    ctx.corr("cascade", reqs, impl, nontriv, classes)


def raise_infra(r):
    from ..engine import InfraError

    raise InfraError(f"C05 worker crashed on seed {r['seed']} ({r['mode']}): {r['crash']}")


# =====================================================================================================
# S: the property itself on the real loader
def _typeset(types):
    return ",".join(sorted(set(types)))


def judge(rec):
    """All violations of the property shown by one record: list of (sig, what)."""
    out = []
    thr = rec["thr"] or 1e-4
    lw = [c for cls, c in rec["warns"] if cls == "LoadWarning" and not c.startswith("other:")]
    other = [f"{cls}:{c}" for cls, c in rec["warns"] if not (cls == "LoadWarning" and not c.startswith("other:"))]
    ts = _typeset(rec["types"])
    v = rec["vendor"]
    own = rec["own"]
    # (a) the norm predicates and guards as computed by the code vs. the harness's own evaluation
    for b, c, ok in rec["tests"]:
        att = ATT_OF.get((b, c))
        if att is None:
            out.append((f"normtest:unknown-variant:{b}/{c}", f"norm test on an unexpected basis/coefficient pair {b}/{c}"))
            continue
        e = own.get(att)
        if e is None:
            out.append((f"guard:{att}", f"attempt {att} was tested although its fix touches no shell of {ts}"))
        elif (e <= thr / 3 and not ok) or (e >= 3 * thr and ok):
            out.append((f"normtest:{att}", f"norm test of attempt {att} returned {ok} but the maximal norm error is "
                                           f"{e:.3e} (threshold {thr:g})"))
    names = {"psi4_10": "psi4_10", "turbomole": "turbomole", "cfour": "cfour", "psi4_132": "psi4_132"}
    for fx, notnone in rec["fixes"].items():
        if fx in names and (own.get(names[fx]) is not None) != notnone:
            out.append((f"guard:{fx}", f"fix {fx} returned {'a value' if notnone else 'None'} for shell types {ts}"))
    if other:
        out.append((f"cascade:unexpected-warning:{v}", "unexpected warnings: " + "; ".join(other)[:200]))
    if rec["mode"] == "vendor":
        exp = rec["expected"]
        # a generated file may, by coincidence of its random scale factors, also satisfy an EARLIER attempt's norm test
        # within the threshold (or sit in its grey zone): the format cannot tell the two encodings apart there and the
        # property does not say which is meant — such cases are outside the vendor stream's domain
        if exp in ORDER and any(own.get(att) is not None and own[att] < 3 * thr for att in ORDER[: ORDER.index(exp)]):
            return out
        if rec["err"] is not None:
            out.append((f"cascade:rejected:{v}:{ts}", f"{v} file ({ts}) raised {rec['err']}"))
            return out
        got = "standard" if not lw else "+".join(lw)
        if rec["cmp"] is not None:
            out.append((f"cascade:{got}-taken-for-{v}:{ts}" if got != exp else f"cascade:wrong-wavefunction:{v}:{ts}",
                        f"{v} file ({ts}) loaded with correction '{got}' but {rec['cmp'][0]}: {rec['cmp'][1]}"))
        if got != exp:
            out.append((f"cascade:warning:{got}-for-{v}:{ts}",
                        f"{v} file ({ts}) announced as '{got}', expected '{exp}'"))
    else:
        safe = [e for e in own.values() if e is not None]
        allfail = all(e > 10 * thr for e in safe)
        if allfail and rec["err"] != "LoadError":
            got = rec["err"] or ("standard" if not lw else "+".join(lw))
            out.append((f"cascade:corrupt-loaded:{rec['tag']}",
                        f"file damaged by {rec['tag']} (no correction yields normalised orbitals: min error "
                        f"{min(safe):.2e}) was not rejected: {got}"))
        if rec["err"] is not None and rec["err"] != "LoadError":
            out.append((f"cascade:corrupt-exception:{rec['err']}", f"damaged file raised {rec['err']} instead of LoadError"))
        if rec["err"] is None:
            if rec["cmp"] is not None:
                out.append((f"cascade:{rec['cmp'][0]}:{rec['tag']}", f"damaged file loaded but {rec['cmp'][1]}"))
            if len(lw) > 1:
                out.append(("cascade:two-warnings", "more than one correction announced"))
            # whatever was taken must be the first attempt that passes (clear margins only)
            first = None
            clear = True
            for att in ORDER:
                e = own.get(att)
                if e is None:
                    continue
                if thr / 3 < e < 3 * thr:
                    clear = False
                    break
                if e <= thr:
                    first = att
                    break
            got = "standard" if not lw else lw[0]
            if clear and first is not None and got != first:
                out.append((f"cascade:not-first:{got}-before-{first}", f"attempt {got} taken although {first} passes first"))
        if rec["err"] == "LoadError" and any(e <= thr / 3 for e in safe):
            out.append(("cascade:rejected-fixable", "LoadError although an attempt yields normalised orbitals"))
    return out


def search(ctx):
    st = _ensure_runs(ctx, extra=ctx.escalated)
    for r in st["recs"]:
        if "crash" in r:
            raise_infra(r)
        bad = judge(r)
        exp = r["expected"] if r["mode"] == "vendor" else "corrupt:" + str(r["tag"])
        outc = r["err"] or "+".join(c for _, c in r["warns"]) or "standard"
        cls = f"{r['vendor']}/{r['fmt']}{'-' + r['unit'] if r['fmt'] == 'molden' else ''}/{exp}->{outc}"
        ctx.count("load-" + r["mode"], [r["seed"], r["mode"]], cls if not bad else cls + "/FAIL",
                  nontrivial=bool(r["quirky"]) or r["mode"] == "corrupt",
                  sample={k: r[k] for k in ("vendor", "fmt", "unit", "thr", "digits", "types", "kind", "err", "warns", "expected")})
        for sig, what in bad:
            ctx.fail(sig, what, {"kind": "case", "seed": r["seed"], "mode": r["mode"], "vendor": r["vendor"],
                                 "fmt": r["fmt"], "types": r["types"], "thr": r["thr"], "sig": sig,
                                 "own_norm_errors": r["own"], "tests": r["tests"], "warns": r["warns"], "err": r["err"]})
    cov = {}
    for f in st["fix"]:
        lw = [c for cls, c in f["warns"] if cls == "LoadWarning" and not c.startswith("other:")]
        got = f["err"] or ("standard" if not lw else "+".join(lw))
        exp = FIXTURES[f["name"]]
        ok = got == exp and (f["norm"] is None or f["norm"] <= 1.5e-4)
        cov[f["name"]] = got
        ctx.count("fixture", f["name"], f"{exp}->{got}", nontrivial=exp != "standard")
        if got != exp:
            ctx.fail(f"fixture-branch:{f['name']}", f"fixture {f['name']} loads with '{got}', committed expectation '{exp}'",
                     {"kind": "fixture", "name": f["name"]})
        elif not ok:
            ctx.fail(f"fixture-norm:{f['name']}", f"fixture {f['name']}: orbitals have norm error {f['norm']:.2e} w.r.t. the returned basis",
                     {"kind": "fixture", "name": f["name"]})
    for n in st.get("missing", []):
        ctx.fail(f"fixture-missing:{n}", f"fixture {n} disappeared", {"kind": "fixture", "name": n})
    ctx.extra_cov["fixture_branches"] = cov
    ctx.extra_cov["fixtures_without_expectation"] = st.get("unlisted", [])
    recs = [r for r in st["recs"] if "crash" not in r]
    ctx.extra_cov["shell_type_sets"] = len({_typeset(r["types"]) for r in recs})
    ctx.extra_cov["lmax_hist"] = {str(k): sum(1 for r in recs if max(int(t[:-1]) for t in r["types"]) == k) for k in range(6)}


def replay(ctx, obj):
    inp = obj["input"]
    if inp.get("kind") == "fixture":
        f = fixture_work(inp["name"])
        lw = [c for cls, c in f["warns"] if cls == "LoadWarning" and not c.startswith("other:")]
        got = f["err"] or ("standard" if not lw else "+".join(lw))
        return got != FIXTURES.get(inp["name"]) or (f["norm"] is not None and f["norm"] > 1.5e-4)
    rec = work((inp["seed"], inp["mode"]))
    if "crash" in rec:
        print(rec["crash"])
        return True
    bad = judge(rec)
    for sig, what in bad:
        print(" ", sig, "--", what)
    return any(sig == inp.get("sig") for sig, _ in bad) or bool(bad)
