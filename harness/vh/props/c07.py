"""C07 — loading any file content ends in a valid object or a LoadError, nothing else."""

from __future__ import annotations

import gc
import multiprocessing as mp
import os
import shutil
import signal
import tempfile
import time
import warnings

from .. import flowlib as fl
from . import _c07readers as rdrs
from ..engine import REPO, InfraError

MODULES = ["Iodata.Props.C07", "Iodata.Props.C07Readers"]
RULE = (
    "flow (controlled): the REAL load_one/load_many run against a scripted format module whose parser performs a "
    "scripted sequence of next(lit)/lit.back() calls (also past the end of the file) and then returns or raises any "
    "class, a scripted IOData constructor, generator and iterator-class load_many, users that exhaust or take k frames "
    "and discard; systematic single-fault sweep + seeded random vectors; compared: outcome class, lineno in the "
    "message, event trace (open/next/back/ctor/yield/close), fd delta. search: every selected corpus file x line "
    "truncation points x seeded mutations (delete/duplicate/swap line, character substitution, numeric overflow, "
    "count inflation) through the real parsers; non-trivial = distinct (file, mutation) whose outcome is not the "
    "unmodified successful load"
)
TRUSTED = [
    "the hand transcription of the format readers into lean/Iodata/Model/Rd/* (xyz, sdf, mol2, pdb, cube, gromacs, and "
    "chgcar._load_vasp_header/_load_vasp_grid + the load_one of poscar, chgcar, locpot in Model/Rd/Vasp.lean, "
    "charmm.load_one/_helper_read_crd in Model/Rd/Crd.lean), checked "
    "by the rdr:<fmt> streams only",
    "the ast translator harness/vh/flowlib.py (api.py -> Gen/ApiFlow.lean)",
    "the scripted format module / traced open() / traced LineIterator of harness/vh/flowlib.py",
]
ASSUMPTIONS = [
    "Python semantics of try/except, with, generators (PEP 479, close() -> GeneratorExit) as transcribed in Model/Flow.lean",
    "the file exists and is readable (open does not fail) — the property's domain",
    "callees do not raise GeneratorExit themselves inside load_many (the model uses that class for the user's discard)",
    "NOT PROVED for the formats without a Lean reader (all but those listed in proved_reader_formats): termination and "
    "outcome classes of the parser on arbitrary content; that part is direct search over mutated corpus files "
    "(exploration support), with a per-load wall-clock limit",
    "lineno convention: LineIterator increments lineno before reading, so after running into the end of a file with N "
    "lines the reported number is N+1 (the line that could not be read); stated as lineno = #next - #back",
    "VASP grid readers (CHGCAR, LOCPOT): `for line in lit` of _load_vasp_grid swallows the StopIteration of the end of "
    "the file and a later next(lit) counts once more, so their proved read bound (and the largest line number a "
    "LoadError can name) is N+2, attained by a file whose last line has four or more integers",
    "CHARMM CRD: the LoadError the reader raises itself (no bare `*`, count line not isdigit()) passes the funnel "
    "unchanged; the exception classes of crd_failures are those of the model, tied to charmm.load_one by rdr:crd",
]
RULE = RULE + ". " + rdrs.RULE
ASSUMPTIONS = ASSUMPTIONS + rdrs.ASSUMPTIONS
TIME_LIMIT = {"quick": 900, "thorough": 5400}
PER_LOAD_LIMIT = 90
FAST_LOAD_LIMIT = 20

EXCS = [e for e in fl.EXC_NAMES if e != "GeneratorExit"]


def translate(ctx):
    fl.translate_apiflow(ctx)
    fl.translate_registry(ctx)


def _item(ops="", res="-", ctor="-"):
    return f"{ops or '@'}/{res}/{ctor}"


def _cases(ctx):
    rng = ctx.rng
    cases = []
    opss = ["", "n", "nn", "nnb", "nbn", "nnbbn", "nnnn", "b", "bn", "nnnnnn"]
    for nlines in (0, 1, 3, 5):
        cases.append(("load_one", {"nlines": nlines, "sel": "FileFormatError", "items": _item("n")}, "select"))
        cases.append(("load_many", {"nlines": nlines, "sel": "FileFormatError", "items": _item("n")}, "select"))
        for ops in opss:
            cases.append(("load_one", {"nlines": nlines, "items": _item(ops)}, "ops"))
            for e in EXCS:
                cases.append(("load_one", {"nlines": nlines, "items": _item(ops, res=e)}, "parser-raises"))
                cases.append(("load_one", {"nlines": nlines, "items": _item(ops, ctor=e)}, "ctor-raises"))
            for gen in "10":
                for quota in ("-", "0", "1", "2", "3"):
                    items = ";".join([_item(ops)] * 3)
                    cases.append(("load_many", {"nlines": nlines, "gen": gen, "quota": quota, "items": items}, "frames"))
        for e in EXCS:
            for gen in "10":
                for k in range(3):
                    its = [_item("n")] * 3
                    its[k] = _item("nnb", res=e)
                    cases.append(("load_many", {"nlines": nlines, "gen": gen, "items": ";".join(its)}, f"parser-raises-frame{k}"))
                    its[k] = _item("n", ctor=e)
                    cases.append(("load_many", {"nlines": nlines, "gen": gen, "items": ";".join(its)}, f"ctor-raises-frame{k}"))
                    cases.append(("load_many", {"nlines": nlines, "gen": gen, "quota": str(k), "iend": e,
                                                "items": ";".join([_item("n")] * 2)}, "end-raises"))
                cases.append(("load_many", {"nlines": nlines, "gen": gen, "iend": e, "items": "@"}, "end-raises-empty"))
    for _ in range(ctx.n(1500, 30000)):
        nlines = rng.randint(0, 8)
        def ritem():
            ops = "".join(rng.choice("nnnb") for _ in range(rng.randint(0, 5)))
            return _item(ops, res=(rng.choice(EXCS) if rng.random() < 0.12 else "-"),
                         ctor=(rng.choice(EXCS) if rng.random() < 0.08 else "-"))
        if rng.random() < 0.4:
            kv = {"nlines": nlines, "items": ritem()}
            entry = "load_one"
        else:
            n = rng.randint(0, 4)
            kv = {"nlines": nlines, "gen": rng.choice("10"), "quota": rng.choice(["-", "-", "0", "1", "2", "3"]),
                  "iend": (rng.choice(EXCS) if rng.random() < 0.15 else "-"),
                  "items": ";".join(ritem() for _ in range(n)) if n else "@"}
            entry = "load_many"
        if rng.random() < 0.04:
            kv["sel"] = "FileFormatError"
        cases.append((entry, kv, "random"))
    return cases


def correspond(ctx):
    work = tempfile.mkdtemp(prefix="vh-c07-")
    reqs, outs, nontriv, classes = [], [], [], []
    try:
        for entry, kv, cls in _cases(ctx):
            line, dfd, still = fl.run_controlled(entry, kv, work, inject_mode=False)
            if dfd != 0 or still != 0:
                line += f" FD-LEAK(delta={dfd},open={still})"
            reqs.append(fl.request_line(entry, kv))
            outs.append(line)
            nontriv.append(not line.startswith(("ret ", "ok ")) or "quota" in kv)
            classes.append(f"{entry}/{cls}/{line.split(' ')[0].split(':')[:2]}")
    finally:
        shutil.rmtree(work, ignore_errors=True)
    ctx.corr("flow", reqs, outs, nontriv, classes)
    rdrs.correspond(ctx)


# ----------------------------------------------------------------------------------------------------
# S: real parsers on truncated / mutated corpus files
# ----------------------------------------------------------------------------------------------------
SLOW_FORMATS = ("molden", "molekel", "mwfn", "fchk", "cp2klog")


class _Timeout(BaseException):
    pass


def _alarm(signum, frame):
    raise _Timeout()


def _sig(line):
    """token-type signature of a line (alphabetic / numeric tokens), used to find section boundaries"""
    return tuple("a" if any(ch.isalpha() for ch in t) and not _is_num(t) else "n" for t in line.split()[:6])


def _is_num(t):
    try:
        float(t.replace("D", "E").replace("d", "e"))
        return True
    except ValueError:
        return False


def _mutate(lines, kind, a, b, c):
    """Deterministic mutation of a list of lines; (a, b, c) are integers drawn by the parent."""
    n = len(lines)
    if kind == "trunc":
        return lines[: a % (n + 1)]
    if kind == "trunc-byte":
        txt = "".join(lines)
        return [txt[: a % (len(txt) + 1)]]
    if n == 0:
        return lines
    i, j = a % n, b % n
    out = list(lines)
    if kind == "delete":
        del out[i]
    elif kind == "dup":
        out.insert(i, out[i])
    elif kind == "swap":
        out[i], out[j] = out[j], out[i]
    elif kind == "subst":
        s = out[i]
        if s:
            k = b % len(s)
            out[i] = s[:k] + "x*-9. \t#"[c % 8] + s[k + 1:]
    elif kind == "overflow":
        import re

        nums = list(re.finditer(r"-?\d+(\.\d+)?", out[i]))
        if nums:
            m = nums[b % len(nums)]
            rep = ["99999999999999999999", "1e999", "-1", "0", "nan", "1.5"][c % 6]
            out[i] = out[i][: m.start()] + rep + out[i][m.end():]
    elif kind == "inflate":
        import re

        for k in list(range(min(n, 40))):
            m = re.fullmatch(r"(\s*)(\d+)(\s*)", out[k])
            if m:
                out[k] = f"{m.group(1)}{int(m.group(2)) * (2 + c % 50) + 1}{m.group(3)}"
                if b % 2:
                    break
    elif kind == "count-zero":
        # set one count-like integer (after "N=", or a line holding a single integer, or the first integer of one of
        # the first 60 lines) to 0 / 1: per-atom blocks then disagree in length
        import re

        cands = []
        for k in range(n):
            m = re.search(r"N=\s*(\d+)\s*$", out[k])
            if m:
                cands.append((k, m.start(1), m.end(1)))
                continue
            m = re.fullmatch(r"\s*(\d+)\s*", out[k])
            if m:
                cands.append((k, m.start(1), m.end(1)))
            elif k < 60:
                m = re.search(r"(?<![\w.])(\d+)(?![\w.])", out[k])
                if m:
                    cands.append((k, m.start(1), m.end(1)))
        if cands:
            k, s0, s1 = cands[a % len(cands)]
            out[k] = out[k][:s0] + ["0", "1", "2"][c % 3].rjust(s1 - s0) + out[k][s1:]
    elif kind == "count-delta":
        # change one count-like integer by a small amount (N= 6 -> 5, 3, 8): packed arrays then have the wrong length
        import re

        cands = []
        for k in range(n):
            m = re.search(r"N=\s*(\d+)\s*$", out[k]) or re.fullmatch(r"\s*(\d+)\s*", out[k])
            if m:
                cands.append((k, m.start(1), m.end(1), int(m.group(1))))
        if cands:
            k, s0, s1, v = cands[a % len(cands)]
            new = max(0, v + [-1, -2, -3, 1, 2, 5][c % 6])
            out[k] = out[k][:s0] + str(new).rjust(s1 - s0) + out[k][s1:]
    elif kind == "count-huge":
        # one count-like integer becomes so large that an array of that size cannot be allocated: the allocation
        # failure (MemoryError) must surface as LoadError like any other failure
        import re

        cands = []
        for k in range(n):
            m = re.search(r"N=\s*(\d+)\s*$", out[k]) or re.fullmatch(r"\s*(\d+)\s*", out[k])
            if m:
                cands.append((k, m.start(1), m.end(1)))
        if cands:
            k, s0, s1 = cands[a % len(cands)]
            out[k] = out[k][:s0] + str(10 ** 14 + c % 7).rjust(s1 - s0) + out[k][s1:]
    elif kind == "del-section":
        # delete the body of a section: the lines between two header-like lines
        heads = [k for k in range(n) if _sig(out[k]) and _sig(out[k])[0] == "a" and (k + 1 < n and _sig(out[k + 1]) != _sig(out[k]))]
        if len(heads) >= 2:
            h = a % (len(heads) - 1)
            del out[heads[h] + 1: heads[h + 1]]
    elif kind == "empty":
        return []
    elif kind == "binary":
        return ["\x00\x01�\x7f" * 10 + "\n"] + out[1:]
    return out


def _limit_for(fname):
    """per-load wall-clock limit: the small text formats load in milliseconds, the big-basis formats in seconds"""
    from iodata import api

    try:
        fmt = api._select_format_module(fname, "load_one").__name__.split(".")[-1]
    except Exception:  # noqa: BLE001
        return PER_LOAD_LIMIT
    return PER_LOAD_LIMIT if fmt in SLOW_FORMATS else FAST_LOAD_LIMIT


def _worker(task):
    """Load one mutated file through load_one or load_many; returns a small verdict dict."""
    fname, many, kind, a, b, c, explicit_fmt = task
    import iodata.utils as utils
    from iodata import api
    from iodata.utils import FileFormatError, LoadError

    src = REPO / "iodata" / "test" / "data" / fname
    try:
        lines = src.read_text().splitlines(keepends=True)
    except UnicodeDecodeError:
        return {"task": task, "verdict": "skip-binary"}
    new = _mutate(lines, kind, a, b, c)
    d = tempfile.mkdtemp(prefix="vh-c07w-")
    path = os.path.join(d, fname)
    if kind == "bad-utf8":
        # bytes that are not valid UTF-8 (a Latin-1 title, binary junk), within the first buffered block or later
        raw = "".join(lines).encode("utf-8")
        junk = [b"\xc5ngstr\xf6m", b"\xff\xfe", b"\x80\x81\x82", b"\xe9"][c % 4]
        pos = (a % (min(len(raw), 200) + 1)) if b % 2 else (a % (len(raw) + 1))
        with open(path, "wb") as fh:
            fh.write(raw[:pos] + junk + raw[pos:])
    else:
        with open(path, "w") as fh:
            fh.write("".join(new))
    counts = {"n": 0, "b": 0}
    orig_next, orig_back = utils.LineIterator.__next__, utils.LineIterator.back

    def t_next(self_):
        counts["n"] += 1
        return orig_next(self_)

    def t_back(self_, line):
        counts["b"] += 1
        return orig_back(self_, line)

    utils.LineIterator.__next__, utils.LineIterator.back = t_next, t_back
    handles = []
    import builtins

    def t_open(*a, **k):
        fh = builtins.open(*a, **k)
        handles.append(fh)
        return fh

    had_open = "open" in utils.__dict__
    utils.open = t_open
    gc.collect()
    fd0 = fl.fd_count()
    old = signal.signal(signal.SIGALRM, _alarm)
    signal.alarm(_limit_for(fname))
    t0 = time.time()
    verdict, detail = "ok", ""
    fmt = None
    if explicit_fmt:
        try:
            fmt = api._select_format_module(fname, "load_many" if many else "load_one").__name__.split(".")[-1]
        except FileFormatError:
            fmt = None
    try:
        with warnings.catch_warnings():
            warnings.simplefilter("ignore")
            try:
                if many:
                    objs = list(api.load_many(path, fmt=fmt))
                else:
                    objs = [api.load_one(path, fmt=fmt)]
                verdict = "object"
                for o in objs:
                    nat = None
                    for name in ("atnums", "atcoords", "atcorenums", "atmasses", "atcharges", "atgradient", "atfrozen"):
                        try:
                            v = getattr(o, name)
                        except Exception as exc:  # noqa: BLE001
                            verdict, detail = "bad-object", f"{name} getter raised {type(exc).__name__}"
                            break
                        if v is None or (name == "atcharges"):
                            if name == "atcharges" and v:
                                for kk, arr in v.items():
                                    if nat is not None and len(arr) != nat:
                                        verdict, detail = "bad-object", f"atcharges[{kk}] has {len(arr)} entries, natom {nat}"
                            continue
                        if nat is None:
                            nat = len(v)
                        elif len(v) != nat:
                            verdict, detail = "bad-object", f"{name} has {len(v)} entries, natom {nat}"
            except FileFormatError as exc:
                verdict = "FileFormatError"
                if fname not in str(exc):
                    verdict, detail = "message-no-file", str(exc)[:200]
            except LoadError as exc:
                verdict = "LoadError"
                msg = str(exc)
                if fname not in msg:
                    verdict, detail = "message-no-file", msg[:200]
                elif exc.lineno is not None and exc.args and exc.args[0] in fl.FUNNEL_LOAD_MSGS \
                        and exc.lineno != counts["n"] - counts["b"]:
                    verdict, detail = "lineno-mismatch", f"message says {exc.lineno}, #next-#back = {counts['n'] - counts['b']}"
                elif exc.lineno is not None and not msg.endswith(f"({path}:{exc.lineno})"):
                    verdict, detail = "message-format", msg[-120:]
            except _Timeout:
                verdict = "timeout"
            except BaseException as exc:  # noqa: BLE001
                verdict, detail = "escape:" + type(exc).__name__, repr(exc)[:200]
    finally:
        signal.alarm(0)
        signal.signal(signal.SIGALRM, old)
        utils.LineIterator.__next__, utils.LineIterator.back = orig_next, orig_back
        if not had_open:
            del utils.open
    if any(not fh.closed for fh in handles) and verdict in ("object", "LoadError", "FileFormatError"):
        verdict, detail = "not-closed", "the input file was still open when the call returned / the iterator was exhausted"
    handles.clear()
    objs = None
    gc.collect()
    dfd = fl.fd_count() - fd0
    if dfd != 0 and verdict in ("object", "LoadError", "FileFormatError"):
        verdict, detail = "fd-leak", f"{dfd} descriptors left open"
    shutil.rmtree(d, ignore_errors=True)
    return {"task": list(task), "verdict": verdict, "detail": detail, "secs": round(time.time() - t0, 2)}


def _corpus(ctx):
    from iodata import api

    files = []
    for p in sorted((REPO / "iodata" / "test" / "data").iterdir()):
        if not p.is_file():
            continue
        try:
            mod = api._select_format_module(p.name, "load_one")
        except Exception:  # noqa: BLE001
            continue
        fmt = mod.__name__.split(".")[-1]
        size = p.stat().st_size
        # Molden/MKL/FCHK loads of the big-basis fixtures take minutes each (the overlap matrix is recomputed for
        # every repair attempt): they stay capped by size in both tiers
        limit = 60_000 if fmt in SLOW_FORMATS else (400_000 if not ctx.thorough else 1_200_000)
        if size > limit:
            continue
        files.append((p.name, fmt, hasattr(mod, "load_many"), size))
    return files


def _tasks(ctx):
    rng = ctx.rng
    files = _corpus(ctx)
    tasks = []
    kinds = ["delete", "dup", "swap", "subst", "subst", "overflow", "overflow", "inflate", "trunc-byte",
             "count-zero", "count-zero", "del-section", "count-delta", "count-delta", "bad-utf8", "count-huge"]
    per_file = ctx.n(36, 150) * (3 if ctx.escalated else 1)
    for fname, fmt, many, size in files:
        nl = sum(1 for _ in open(REPO / "iodata" / "test" / "data" / fname, errors="replace"))
        cap = per_file // 2 if fmt in SLOW_FORMATS else per_file
        cuts = list(range(nl + 1))
        if len(cuts) > cap:
            flines = open(REPO / "iodata" / "test" / "data" / fname, errors="replace").read().splitlines()
            # cut points right after a line whose shape differs from the next one (section headers, counts, ends of
            # blocks) are where skip-until loops and look-ahead/push-back logic can go wrong: take those first
            bound = [i for i in range(1, nl) if i < len(flines) and _sig(flines[i - 1]) != _sig(flines[i])]
            nb = min(len(bound), cap if ctx.thorough and fmt not in SLOW_FORMATS else (2 * cap) // 3)
            chosen = set(rng.sample(bound, nb)) if nb else set()
            rest = [c for c in cuts if c not in chosen]
            chosen |= set(rng.sample(rest, min(len(rest), max(cap - len(chosen), cap // 3))))
            cuts = sorted(chosen)
        base = [("trunc", c, 0, 0) for c in cuts] + [("empty", 0, 0, 0), ("binary", 0, 0, 0), ("bad-utf8", 0, 1, 0),
                                                      ("bad-utf8", 5, 1, 1)]
        base += [(rng.choice(kinds), rng.randrange(10**6), rng.randrange(10**6), rng.randrange(10**6)) for _ in range(cap)]
        # every count-like line once (packed arrays: "N= 28" -> 27), up to a cap
        import re as _re

        try:
            ftxt = open(REPO / "iodata" / "test" / "data" / fname, errors="replace").read().splitlines()
        except OSError:
            ftxt = []
        ncount = sum(1 for l in ftxt if _re.search(r"N=\s*\d+\s*$", l) or _re.fullmatch(r"\s*\d+\s*", l))
        for k in range(min(ncount, ctx.n(24, 80))):
            base.append(("count-delta", k if ncount <= ctx.n(24, 80) else rng.randrange(ncount), 0, rng.randrange(6)))
        for k in range(min(ncount, 3)):
            base.append(("count-huge", k, 0, rng.randrange(7)))
        for kind, a, b, c in base:
            use_many = many and rng.random() < 0.5
            tasks.append((fname, use_many, kind, a, b, c, rng.random() < 0.3))
    return tasks


AMBIGUOUS_NAMES = ["h2o_FCIDUMP.molden", "x.FCIDUMP.extxyz", "FCIDUMP.xyz", "POSCAR.xyz", "POSCAR_x.cube", "CHGCAR.cube",
                   "LOCPOT.sdf", "AECCAR0.json", "a.cp2k.out", "b.out", "FCIDUMP.cp2k.out", "POSCAR.FCIDUMP", "x.fchk.molden",
                   "x.molden.input", "x.xyz.pdb", "CHGCAR.fchk", "job.log", "FCIDUMP", "POSCAR", "x.mkl.wfn", "x.wfn", "x.molden", "x.cube",
                   "x.mkl", "x.wfx", "x.json", "x.nothing"]


def check_ambiguous_name(name, src, mode):
    """load_one / load_many of `src`'s content (whole, empty, or cut) under a name that several format modules (or
    none) recognise, without an explicit format: an object, LoadError or FileFormatError — nothing else."""
    from iodata import api
    from iodata.utils import FileFormatError, LoadError

    text = (REPO / "iodata" / "test" / "data" / src).read_text(errors="replace")
    text = {"whole": text, "empty": "", "cut": text[: len(text) // 2]}[mode]
    out = []
    with tempfile.TemporaryDirectory(prefix="c07n-") as tmp:
        path = os.path.join(tmp, name)
        with open(path, "w") as fh:
            fh.write(text)
        for fn in ("load_one", "load_many"):
            try:
                with warnings.catch_warnings():
                    warnings.simplefilter("ignore")
                    r = getattr(api, fn)(path)
                    if fn == "load_many":
                        for _k, _frame in zip(range(3), r):
                            pass
                got = "object"
            except (LoadError, FileFormatError) as exc:
                got = type(exc).__name__
                # no module whose pattern matches the name offers this entry point: the documented outcome is
                # FileFormatError (nothing was parsed, so nothing can be a *load* error)
                import fnmatch

                able = [m for m in api.FORMAT_MODULES.values()
                        if any(fnmatch.fnmatch(name, pat) for pat in m.PATTERNS) and hasattr(m, fn)]
                if not able and got != "FileFormatError":
                    out.append((f"class:{got}-for-unsupported:{fn}:name-derived-format",
                                f"{fn}({name!r}): no format recognising this name offers {fn}, expected FileFormatError, got {got}: {exc}"[:300]))
            except Exception as exc:  # noqa: BLE001
                out.append((f"escape:{type(exc).__name__}:name-derived-format",
                            f"{fn}({name!r}) with the content of {src} ({mode}) raised {type(exc).__name__}: {exc}"[:300]))
    return out


def search_ambiguous_names(ctx):
    rng = ctx.rng
    srcs = ["water.xyz", "FCIDUMP.molpro.h2", "POSCAR.water", "h2o.molden.input", "water_orca.out", "atom_si.cp2k.out",
            "cubegen_h2o_5points.cube", "water_sto3g_hf_g03.fchk"]
    srcs = [x for x in srcs if (REPO / "iodata" / "test" / "data" / x).exists()]
    for name in AMBIGUOUS_NAMES:
        for src in (srcs if ctx.thorough else rng.sample(srcs, min(3, len(srcs)))):
            for mode in ("whole", "empty", "cut"):
                bad = check_ambiguous_name(name, src, mode)
                ctx.count("search-name", [name, src, mode], "ok" if not bad else "escape")
                for sig, what in bad:
                    ctx.fail(sig, what, {"kind": "name", "name": name, "src": src, "mode": mode})


def search(ctx):
    search_ambiguous_names(ctx)
    tasks = _tasks(ctx)
    fmt_of = {f[0]: f[1] for f in _corpus(ctx)}
    # a format whose parser was already shown not to terminate by the reader correspondence (reported there with its
    # replay) is not searched again: every further hanging load would only cost its full time limit
    hung = {f["sig"].split(":", 1)[1].split(".")[0] for f in ctx.failures if f["sig"].startswith("does-not-terminate:")}
    if hung:
        ctx.extra_cov["search_skipped_formats_already_reported_nonterminating"] = sorted(hung)
        tasks = [t for t in tasks if fmt_of.get(t[0]) not in hung]
    # probe first: the intact file (load_one, and load_many where it exists) and one truncation per file.  A file whose
    # probes time out twice would cost its full time limit for every derived input, so its other inputs are skipped
    # (the time-outs themselves are analysed below: non-terminating parser or slow intact file)
    probe = []
    for fname, _fmt, many, _size in _corpus(ctx):
        if _fmt in hung:
            continue
        probe.append((fname, False, "none", 0, 0, 0, True))
        if many:
            probe.append((fname, True, "none", 0, 0, 0, True))
        probe.append((fname, False, "trunc-byte", 10**9 + 7, 0, 0, True))
    with mp.get_context("fork").Pool(min(16, os.cpu_count() or 4), maxtasksperchild=200) as pool:
        results = pool.map(_worker, probe, chunksize=2)
        ntimeout = {}
        for r in results:
            if r["verdict"] == "timeout":
                ntimeout[r["task"][0]] = ntimeout.get(r["task"][0], 0) + 1
        skipped = sorted(f for f, k in ntimeout.items() if k >= 2)
        if skipped:
            ctx.extra_cov["search_files_skipped_after_probe_timeouts"] = skipped
        tasks = [t for t in tasks if t[0] not in skipped]
        results.extend(pool.map(_worker, tasks, chunksize=8))
    slow = []
    for r in results:
        v = r["verdict"]
        if v == "skip-binary":
            continue
        fname, many, kind = r["task"][0], r["task"][1], r["task"][2]
        ctx.count("search-load", r["task"], f"{kind}/{v.split(':')[0]}", nontrivial=True,
                  sample={"file": fname, "many": many, "mutation": r["task"][2:6], "verdict": v})
        if v == "timeout":
            slow.append(r["task"])
        elif v not in ("object", "LoadError", "FileFormatError"):
            from iodata import api

            try:
                fmt = api._select_format_module(fname, "load_one").__name__.split(".")[-1]
            except Exception:  # noqa: BLE001
                fmt = "?"
            ctx.fail(f"{v}:{fmt}.{'load_many' if many else 'load_one'}",
                     f"{fname} ({kind}) through {'load_many' if many else 'load_one'}: {v} {r['detail']}",
                     {"kind": "load", "task": r["task"]})
    ctx.extra_cov["corpus_files"] = len({t[0] for t in tasks})
    ctx.extra_cov["parser_part_is_exploration_for_formats_without_lean_reader"] = True
    if slow:
        # Is it the parser that does not terminate, or the intact file that is slow to load?  Load the intact file
        # (mutation "none") under the same limit and compare.
        unresolved = []
        for t in slow[:6]:
            t0 = time.time()
            r0 = _worker((t[0], t[1], "none", 0, 0, 0, t[6]))
            dt = time.time() - t0
            if r0["verdict"] != "timeout" and _limit_for(t[0]) > 20 * dt + 10:
                from iodata import api

                fmt = api._select_format_module(t[0], "load_one").__name__.split(".")[-1]
                ctx.fail(f"does-not-terminate:{fmt}.{'load_many' if t[1] else 'load_one'}",
                         f"{t[0]} ({t[2]}) did not finish loading within {_limit_for(t[0])}s although the intact file loads "
                         f"in {dt:.2f}s: the parser does not terminate on this content", {"kind": "load", "task": list(t)})
            else:
                unresolved.append(t)
        if unresolved:
            # the intact file is (nearly) as slow as the limit on this machine right now: nothing can be concluded
            # from these loads; they are reported in the evidence, not as a violation and not as a failure of the check
            ctx.extra_cov["loads_skipped_because_the_intact_file_is_slow"] = [t[0] for t in unresolved]
            for t in unresolved:
                ctx.hist[f"search-load:{t[2]}/inconclusive-slow-file"] += 1
    rdrs.search(ctx)


def replay(ctx, obj):
    inp = obj["input"]
    if inp.get("kind") in ("rdr", "rctor"):
        return rdrs.replay(ctx, obj)
    if inp.get("kind") == "name":
        return bool(check_ambiguous_name(inp["name"], inp["src"], inp["mode"]))
    r = _worker(tuple(inp["task"]))
    if r["verdict"] == "timeout":
        return str(obj.get("signature", "")).startswith("does-not-terminate")
    return r["verdict"] not in ("object", "LoadError", "FileFormatError", "skip-binary")
