"""C17 — format selection is deterministic and declared capabilities are truthful."""

from __future__ import annotations

import inspect
import itertools
import os
import tempfile
import warnings

import numpy as np

from ..engine import REPO, lean_list
from . import _c07readers as rdrs
from . import _c17readers as rkeys

MODULES = ["Iodata.Props.C17", "Iodata.Props.C17Readers"]
OPS = ["load_one", "load_many", "dump_one", "dump_many"]
RULE = (
    "select: every corpus file name, every pattern instantiated with '*' -> '', 'x', every other pattern's literal "
    "part and longer fillers, upper/lower/swapped-case variants, names without any match, each of them also below "
    "directories whose names contain pattern text, x 4 operations + one non-existent operation x explicit format in "
    "{None, every registered module, unknown names}; exhaustive (no sampling); paths live in an empty temporary "
    "directory whose listing is compared before/after and os.stat/open/listdir are trapped during selection. "
    "non-trivial = the base name matches at least one pattern of a module other than the chosen one, or an explicit "
    "format is given. selectin: input-module names. search: selection re-derived independently with fnmatch over "
    "sorted module names; every corpus file that loads (load_one and load_many) against its module's guaranteed list; "
    "for every dump function and every required attribute: the attribute set to None on an otherwise loadable object "
    "must raise PrepareDumpError with no open() call and an untouched pre-existing file. "
    "rdr:<fmt> (tie of the 'guaranteed => set' theorems for xyz, sdf, mol2, pdb, cube, gromacs, poscar, chgcar, locpot, crd = module charmm): corpus and generated "
    "files of these formats x line truncations x seeded mutations (as C07, smaller budget): real formats.<fmt>.load_one "
    "+ IOData(**result) against the Lean reader, compared: outcome class, array shapes, the keys of the result "
    "dictionary whose value is not None, the constructor's verdict, the attributes that are not None on the "
    "constructed object, lit.lineno; non-trivial = the outcome differs from the unmodified file's"
)
TRUSTED = [
    "registry extraction: FORMAT_MODULES/INPUT_MODULES of the imported iodata.api, PATTERNS and hasattr on the module "
    "objects, the lists attached by the document_* decorators, inspect.signature(IOData.__init__), "
    "iodata.__main__.DESCRIPTION",
    "the ast walk harness/vh/props/_c17readers.py (formats/{xyz,sdf,mol2,pdb,cube,gromacs,poscar,chgcar,locpot,charmm}.py -> Gen/ReaderKeys.lean: "
    "keys of every dictionary load_one returns / keys stored on some paths only; load_many yields unmodified "
    "load_one(lit) dictionaries; attrs defaults of IOData; a load_one that takes its dictionary from a module-level "
    "helper, `result = _load_vasp_grid(lit)`, also one imported from a sibling module, is followed into the helper)",
]
ASSUMPTIONS = [
    "fnmatch.fnmatch on POSIX for patterns made only of literal characters and '*' (checked on every run: no "
    "registered pattern contains '?', '[' or ']') equals Select.glob; case-sensitive",
    "os.path.basename on POSIX = text after the last '/'",
    "hasattr(module, attrname) is modelled for the four operation names (and one absent name) only",
    "dict iteration order of FORMAT_MODULES = insertion order = order of pkgutil.iter_modules",
    "'guaranteed => set' is a theorem for the ten formats with a Lean reader (xyz, sdf, mol2, pdb, cube, gromacs, "
    "poscar, chgcar, locpot, charmm; "
    "load_one, and load_many through the generated fact that every frame is an unmodified load_one(lit) dictionary); "
    "the reader models are hand transcriptions tied to the real readers by the rdr:<fmt> streams (character domain and "
    "allocation limit as stated for C07) and by the generated result-key skeletons; 'set' = the name is a key of the "
    "result dictionary with a value that is not None, hence not None on IOData(**result) (constructor model: no "
    "converter/validator produces None; atcharges/atffparams/extra default to a dict; atcorenums is derived from "
    "atnums); sub-keys of dictionary-valued attributes are not part of any declaration and are not covered",
    "NOT PROVED for the other 15 format modules: 'guaranteed => set' is direct search (corpus files, files generated "
    "from them, mutated corpus files that still load)",
    "load_many of the modelled modules that have one (xyz, sdf, mol2, pdb, gromacs): that the frames handed to IOData(**frame) by api.load_many are the generator's "
    "dictionaries is the flow theorem of C07; the loop around load_one (blank-line skipping, lit.back) is not modelled "
    "here (C13 models it), only that each yielded frame is a load_one result on the remaining lines",
] + [a for a in rdrs.ASSUMPTIONS if a.startswith(("character domain", "allocations above"))]


# --------------------------------------------------------------------------- T1
def _chars(s):
    out = []
    for c in s:
        if 32 < ord(c) < 127 and c not in "'\\":
            out.append(f"'{c}'")
        elif c == "'":
            out.append("'\\''")
        elif c == "\\":
            out.append("'\\\\'")
        else:
            out.append(f"Char.ofNat {ord(c)}")
    return "[" + ",".join(out) + "]"


def _registry():
    from iodata.api import FORMAT_MODULES

    reg = []
    for name, mod in FORMAT_MODULES.items():
        pats = list(mod.PATTERNS)
        if not all(isinstance(p, str) for p in pats):
            raise ValueError(f"PATTERNS of {name} are not strings")
        reg.append((name, pats, [op for op in OPS if hasattr(mod, op)]))
    return reg


def _declared():
    from iodata.api import FORMAT_MODULES

    out = []
    for name, mod in FORMAT_MODULES.items():
        for op in OPS:
            f = getattr(mod, op, None)
            if f is None:
                continue
            out.append((name, op, list(getattr(f, "guaranteed", None) or []), list(getattr(f, "ifpresent", None) or []),
                        list(getattr(f, "required", None) or []), list(getattr(f, "optional", None) or [])))
    return out


def _iodata_attrs():
    from iodata import IOData

    init = [p for p in inspect.signature(IOData.__init__).parameters if p != "self"]
    readable = [n for n in dir(IOData) if not n.startswith("_") and not callable(getattr(IOData, n, None))]
    return init, readable


def _cli_help():
    import iodata.__main__ as m

    lines = m.DESCRIPTION.splitlines()
    out = []
    for op in OPS:
        i = lines.index(op)
        out.append((op, lines[i + 1].split()))
    return out


def translate(ctx):
    from iodata.api import INPUT_MODULES

    reg = _registry()
    decl = _declared()
    init, readable = _iodata_attrs()
    body = ["import Iodata.Model.Select", "namespace Iodata.Gen.Registry", "open Iodata.Select", ""]
    body.append("/-- `FORMAT_MODULES` in dict order: name, `PATTERNS`, which of the four entry points exist -/")
    body.append("def registry : List Module :=\n  [" + ",\n   ".join(
        f"⟨{_chars(n)}, {lean_list(p, _chars)}, {lean_list(a, _chars)}⟩" for n, p, a in reg) + "]\n")
    body.append("/-- lists attached by `document_load_one/many`, `document_dump_one/many` -/")
    body.append("def declared : List Declared :=\n  [" + ",\n   ".join(
        f"⟨{_chars(n)}, {_chars(op)}, {lean_list(g, _chars)}, {lean_list(i, _chars)}, {lean_list(r, _chars)}, {lean_list(o, _chars)}⟩"
        for n, op, g, i, r, o in decl) + "]\n")
    body.append("/-- keyword parameters of `IOData.__init__` -/")
    body.append("def initParams : List Str :=\n  " + lean_list(init, _chars) + "\n")
    body.append("/-- public data attributes and properties readable on an `IOData` object -/")
    body.append("def readable : List Str :=\n  " + lean_list(readable, _chars) + "\n")
    body.append("/-- `INPUT_MODULES` in dict order -/")
    body.append("def inputModules : List Str :=\n  " + lean_list(list(INPUT_MODULES), _chars) + "\n")
    body.append("/-- every public module found in the `iodata.inputs` package, and whether it defines `write_input` -/")
    import pkgutil

    import iodata.inputs as _inp

    found = []
    for mi in sorted(pkgutil.iter_modules(_inp.__path__), key=lambda m: m.name):
        mod = __import__("iodata.inputs." + mi.name, fromlist=["x"])
        found.append((mi.name, hasattr(mod, "write_input")))
    body.append("def inputPackage : List (Str × Bool) :=\n  ["
                + ", ".join(f"({_chars(n)}, {'true' if w else 'false'})" for n, w in found) + "]\n")
    body.append("/-- the lists of formats printed by `python -m iodata --help` (`__main__.DESCRIPTION`) -/")
    body.append("def cliHelp : List (Str × List Str) :=\n  ["
                + ",\n   ".join(f"({_chars(op)}, {lean_list(names, _chars)})" for op, names in _cli_help()) + "]\n")
    body.append("end Iodata.Gen.Registry\n")
    ctx.gen_write("Registry", "\n".join(body))
    # result-key skeletons of the six readers with a Lean model (Gen/ReaderKeys.lean)
    rkeys.translate(ctx)


# --------------------------------------------------------------------------- T2
def _enc(s):
    return ",".join(str(ord(c)) for c in s) if s else "@"


def _classify(exc):
    name = type(exc).__name__
    if name == "FileFormatError":
        m = str(exc.args[0]) if exc.args else ""
        if m.startswith("Cannot find file format"):
            return "err FileFormatError:noFormat"
        if m.startswith("Format ") and "does not support" in m:
            return "err FileFormatError:unsupported"
        if m.startswith("Unknown file format"):
            return "err FileFormatError:unknownFormat"
        if m.startswith("Cannot find input format"):
            return "err FileFormatError:noInputFormat"
        return "err FileFormatError:other"
    if name in ("TypeError", "ValueError", "LoadError", "PrepareDumpError", "DumpError", "WriteInputError"):
        return "err " + name
    return "err Other:" + name


def impl_select(path, attr, fmt):
    from iodata.api import FORMAT_MODULES, _select_format_module

    try:
        mod = _select_format_module(path, attr, fmt)
    except Exception as exc:
        return _classify(exc)
    names = [n for n, m in FORMAT_MODULES.items() if m is mod]
    return "ok " + (names[0] if names else "?" + getattr(mod, "__name__", "?"))


def impl_selectin(path, fmt):
    from iodata.api import INPUT_MODULES, _select_input_module

    try:
        mod = _select_input_module(path, fmt)
    except Exception as exc:
        return _classify(exc)
    names = [n for n, m in INPUT_MODULES.items() if m is mod]
    return "ok " + (names[0] if names else "?")


def _inst(pattern, fillers):
    parts = pattern.split("*")
    out = parts[0]
    for f, p in zip(fillers, parts[1:]):
        out += f + p
    return out


def _corpus_names():
    return sorted(os.listdir(REPO / "iodata" / "test" / "data"))


def _swap_some(s):
    return "".join(c.upper() if i % 2 else c.lower() for i, c in enumerate(s))


def _names(reg):
    """(basename, class) for all generated base names, in deterministic order"""
    pats = [p for _, ps, _ in reg for p in ps]
    small = ["", "x"]
    lits = []
    for q in pats:
        for f in ("", "x"):
            lits.append(_inst(q, [f] * q.count("*")))
    lits = list(dict.fromkeys(lits))
    fillers = list(dict.fromkeys(small + ["X.y", "a b", ".", "*", "é"] + lits))
    names = {}
    for n in _corpus_names():
        names.setdefault(n, "corpus")
    for p in pats:
        k = p.count("*")
        for fs in itertools.product(fillers, repeat=k):
            cls = "pattern-inst-small" if all(f in small for f in fs) else (
                "pattern-inst-cross" if any(f in lits for f in fs) else "pattern-inst-filler")
            names.setdefault(_inst(p, fs), cls)
        # pattern text with something after / before it (must not match unless another star allows it)
        names.setdefault(_inst(p, ["x"] * k) + "~", "pattern-suffix-broken")
        names.setdefault("~" + _inst(p, ["x"] * k), "pattern-prefix-broken")
        names.setdefault(_inst(p, ["x"] * k)[:-1], "pattern-truncated")
    for n in ["", "x", "README", "noext.", ".xyz", "xyz", ".", "..", "x.json", "x.txt", "x.xyz.bak", "x.out.gz", "a.b.c", " ", "x.xyz ", "x.xyz\n"]:
        names.setdefault(n, "no-or-edge-match")
    base = list(names.items())
    for n, c in base:
        for v in (n.upper(), n.lower(), _swap_some(n)):
            names.setdefault(v, c + "/case-variant")
    return list(names.items())


DIRS = ["d/", "x.xyz/", "FCIDUMP/", "POSCAR.dir/", "a.molden/b.wfn/", "/abs/x.fchk/", "./", "../x.cp2k.out/", "dir.with.mol2/sub/"]


class _FsTrap:
    """count file-system calls made while selection runs"""

    NAMES = [("os", "stat"), ("os", "lstat"), ("os", "open"), ("os", "listdir"), ("os", "scandir"), ("os", "access"),
             ("builtins", "open"), ("os", "readlink")]

    def __enter__(self):
        import builtins

        self.calls = []
        self.saved = []
        mods = {"os": os, "builtins": builtins}
        for mn, fn in self.NAMES:
            orig = getattr(mods[mn], fn)
            self.saved.append((mods[mn], fn, orig))

            def wrap(*a, _o=orig, _n=f"{mn}.{fn}", **k):
                self.calls.append((_n, repr(a[:1])[:200]))
                return _o(*a, **k)

            setattr(mods[mn], fn, wrap)
        return self

    def __exit__(self, *exc):
        for m, fn, orig in self.saved:
            setattr(m, fn, orig)
        return False


def _matching_modules(reg, base):
    from fnmatch import fnmatchcase

    return [n for n, ps, _ in reg if any(fnmatchcase(base, p) for p in ps)]


def correspond(ctx):
    reg = _registry()
    modnames = [n for n, _, _ in reg]
    names = _names(reg)
    attrs = OPS + ["dump_few"]
    cases = []  # (relpath, attr, fmt, class)
    for n, cls in names:
        for a in attrs:
            cases.append((n, a, None, cls + "/guess"))
    dir_names = [(n, c) for n, c in names if c in ("corpus", "pattern-inst-small", "no-or-edge-match") or
                 (c == "pattern-inst-cross" and ("x." in n or n.startswith("x") or "FCIDUMP" in n))]
    for d in DIRS:
        for n, cls in dir_names:
            if "/" in n:
                continue
            for a in attrs:
                cases.append((d + n, a, None, "dir:" + d + "/" + cls.split("/")[0] + "/guess"))
    # trailing slash: the base name is empty
    for n, cls in dir_names[:400]:
        cases.append((n + "/", "load_one", None, "trailing-slash/guess"))
    fmt_names = [n for n, c in names if c == "corpus"][::4] + ["x.xyz", "x.cp2k.out", "FCIDUMP.molden", "POSCAR.xyz", "nomatch", "",
                                                              "d.wfn/x.fchk", "x.XYZ"]
    for f in modnames + ["nope", "XYZ", "", "xyz ", "Wfn", "json"]:
        for n in fmt_names:
            for a in attrs:
                cases.append((n, a, f, "explicit:" + ("registered" if f in modnames else "unknown")))
    ctx.extra_cov["select_names"] = len(names)
    ctx.extra_cov["select_exhaustive_over_generated_names"] = True
    with tempfile.TemporaryDirectory(prefix="c17-") as tmp:
        before = sorted(os.listdir(tmp))
        reqs, outs, nontriv, classes = [], [], [], []
        with _FsTrap() as trap:
            for rel, a, f, cls in cases:
                path = rel if rel.startswith("/") else tmp + "/" + rel
                outs.append(impl_select(path, a, f))
        fs_calls = list(trap.calls)
        after = sorted(os.listdir(tmp))
        for (rel, a, f, cls), o in zip(cases, outs):
            path = rel if rel.startswith("/") else tmp + "/" + rel
            reqs.append(f"select {_enc(path)} {a} " + ("-" if f is None else _enc(f)))
            base = path.rsplit("/", 1)[-1]
            mm = _matching_modules(reg, base)
            nontriv.append(f is not None or len(mm) >= 2)
            classes.append(cls + ("/multi-match" if len(mm) >= 2 else "") + "/" + o.split(" ")[0] + (":" + o.split(":")[1] if ":" in o else ""))
        ctx.obligation("selection-touches-no-file-system", not fs_calls and before == after == [],
                       f"calls {fs_calls[:5]} listing {after[:5]}")
        ctx.corr("select", reqs, outs, nontriv, classes)
    from iodata.api import INPUT_MODULES

    cases = [(p, f) for p in ["x.com", "", "d/x.in", "orca.inp"] for f in list(INPUT_MODULES) + ["", "Orca", "gaussian ", "nope", "xyz", "common"]]
    ctx.corr("selectin", [f"selectin {_enc(p)} {_enc(f)}" for p, f in cases], [impl_selectin(p, f) for p, f in cases],
             None, ["registered" if f in INPUT_MODULES else "unknown" for _, f in cases])
    # the reader models of the 'guaranteed => set' theorems against the real readers (keys / set attributes included)
    rdrs.correspond_rdr(ctx, trunc_cap=ctx.n(40, 400), nmut=ctx.n(25, 200), report_failures=False)


# --------------------------------------------------------------------------- S (real code only)
def check_select(path, attr, fmt, reg=None):
    """the property's own predicate for one call; returns None or (sig, what)"""
    from fnmatch import fnmatchcase

    from iodata.api import FORMAT_MODULES, _select_format_module
    from iodata.utils import FileFormatError

    base = path.rsplit("/", 1)[-1]
    candidates = [n for n, m in FORMAT_MODULES.items()
                  if any(fnmatchcase(base, p) for p in m.PATTERNS) and hasattr(m, attr)]
    try:
        mod = _select_format_module(path, attr, fmt)
        got = [n for n, m in FORMAT_MODULES.items() if m is mod]
        got = got[0] if got else None
    except FileFormatError:
        got = FileFormatError
    except Exception as exc:
        return ("select-wrong-exception:" + type(exc).__name__, f"_select_format_module({path!r}, {attr!r}, {fmt!r}) raised {type(exc).__name__}")
    call = f"_select_format_module({path!r}, {attr!r}, {fmt!r})"
    if fmt is not None:
        want = fmt if (fmt in FORMAT_MODULES and hasattr(FORMAT_MODULES[fmt], attr)) else FileFormatError
        if got != want:
            return ("select-explicit-format-not-honoured", f"{call} gave {got}, explicit format demands {want}")
        return None
    if got is FileFormatError:
        if candidates:
            return ("select-rejects-supported-name", f"{call} raised FileFormatError although {candidates} match and support it")
        return None
    if got not in candidates:
        return ("select-chose-non-matching-or-unsupporting", f"{call} chose {got}; modules that match and support: {candidates}")
    # function of the base name only
    for d in ("", "some.xyz/", "/FCIDUMP/POSCAR/x.wfn/"):
        try:
            other = _select_format_module(d + base, attr, None)
        except Exception as exc:
            other = type(exc)
        if other is not mod:
            return ("select-depends-on-directory", f"{call} differs from the call with {d + base!r}")
    return None


def _missing(data, names):
    return [a for a in names if getattr(data, a, None) is None]


def _corpus_worker(args):
    name, do_generated = args
    warnings.simplefilter("ignore")
    from iodata import IOData, dump_one, load_many, load_one
    from iodata.api import FORMAT_MODULES, _select_format_module
    from iodata.utils import FileFormatError

    path = str(REPO / "iodata" / "test" / "data" / name)
    fmt = "json_qcschema" if name.endswith(".json") else None
    out = []
    try:
        mod = _select_format_module(path, "load_one", fmt)
    except FileFormatError:
        return [(name, "load_one", None, "no-format", [])]
    modname = [n for n, m in FORMAT_MODULES.items() if m is mod][0]
    data = None
    try:
        data = load_one(path, fmt=fmt)
        out.append((name, "load_one", modname, "loaded", _missing(data, mod.load_one.guaranteed)))
    except Exception as exc:
        out.append((name, "load_one", modname, "raises:" + type(exc).__name__, []))
    if hasattr(mod, "load_many"):
        try:
            miss = set()
            nfr = 0
            for fr in load_many(path, fmt=fmt):
                nfr += 1
                miss.update(_missing(fr, mod.load_many.guaranteed))
            out.append((name, "load_many", modname, f"loaded:{min(nfr, 3)}+frames" if nfr else "loaded:0frames", sorted(miss)))
        except Exception as exc:
            out.append((name, "load_many", modname, "raises:" + type(exc).__name__, []))
    if do_generated and data is not None and (data.natom or 0) <= 40 and (data.obasis is None or data.obasis.nbasis <= 120):
        with tempfile.TemporaryDirectory(prefix="c17g-") as tmp:
            for dn, dm in FORMAT_MODULES.items():
                if not (hasattr(dm, "dump_one") and hasattr(dm, "load_one")):
                    continue
                if _missing(data, dm.dump_one.required):
                    continue
                target = os.path.join(tmp, "gen." + dn)
                try:
                    dump_one(data, target, fmt=dn, allow_changes=True)
                    back = load_one(target, fmt=dn)
                except Exception:
                    continue
                out.append((name + "->" + dn, "load_one", dn, "generated", _missing(back, dm.load_one.guaranteed)))
    return out


def _mutant_worker(args):
    """Variants of a corpus file (a word / a line dropped, a line truncated): whenever one still loads
    successfully, every guaranteed attribute must be set."""
    name, seeds = args
    warnings.simplefilter("ignore")
    import random
    import signal

    from iodata import load_one
    from iodata.api import FORMAT_MODULES, _select_format_module
    from iodata.utils import FileFormatError

    path = REPO / "iodata" / "test" / "data" / name
    fmt = "json_qcschema" if name.endswith(".json") else None
    try:
        mod = _select_format_module(str(path), "load_one", fmt)
        lines = path.read_text().splitlines(keepends=True)
    except (FileFormatError, UnicodeDecodeError):
        return []
    modname = [n for n, m in FORMAT_MODULES.items() if m is mod][0]
    out = []

    class _TO(BaseException):
        pass

    def _alarm(signum, frame):
        raise _TO()

    old = signal.signal(signal.SIGALRM, _alarm)
    try:
        with tempfile.TemporaryDirectory(prefix="c17m-") as tmp:
            for sd in seeds:
                rng = random.Random(f"{name}-{sd}")
                new = list(lines)
                head = min(len(new), 14)
                kind = rng.choice(["dropword", "dropword", "dropline", "cutline", "dropsection"])
                if not new:
                    continue
                i = rng.randrange(head) if rng.random() < 0.7 else rng.randrange(len(new))
                if kind == "dropword":
                    ws = new[i].split()
                    if len(ws) < 2:
                        continue
                    k = rng.randrange(len(ws))
                    # remove the k-th word but keep the rest of the line as it is
                    pos = 0
                    for _ in range(k + 1):
                        while pos < len(new[i]) and new[i][pos].isspace():
                            pos += 1
                        start = pos
                        while pos < len(new[i]) and not new[i][pos].isspace():
                            pos += 1
                    new[i] = new[i][:start] + new[i][pos:]
                elif kind == "dropline":
                    del new[i]
                elif kind == "cutline":
                    new[i] = new[i][: rng.randrange(len(new[i]) + 1)].rstrip("\n") + "\n"
                else:  # drop a run of lines (an optional section)
                    j = min(len(new), i + rng.randint(2, 12))
                    del new[i:j]
                target = os.path.join(tmp, name)
                with open(target, "w") as fh:
                    fh.write("".join(new))
                signal.alarm(30)
                try:
                    data = load_one(target, fmt=fmt)
                    status, missing = "loaded", _missing(data, mod.load_one.guaranteed)
                except _TO:
                    status, missing = "timeout", []
                except Exception as exc:
                    status, missing = "raises:" + type(exc).__name__, []
                finally:
                    signal.alarm(0)
                out.append((name, sd, kind, modname, status, missing))
    finally:
        signal.signal(signal.SIGALRM, old)
    return out


def _pool_objects():
    """small loaded objects used as starting points for the required-attribute test"""
    warnings.simplefilter("ignore")
    from iodata import load_one

    objs = []
    for n in ["hf_sto3g.fchk", "water.xyz", "caffeine.mol2", "FCIDUMP.molpro.h2", "POSCAR.water", "cubegen_h2o_5points.cube",
              "water_sto3g_hf_g03.fchk", "2luv.pdb", "example.sdf", "h2o_sto3g.wfn", "water_sto3g_hf.wfx", "h2o.molden.input",
              "benzene.mol2", "ch3_hf_sto3g.fchk", "peroxide_opt.fchk"]:
        p = REPO / "iodata" / "test" / "data" / n
        if p.exists():
            try:
                objs.append((n, load_one(str(p))))
            except Exception:
                pass
    return objs


def _without(base, attr):
    """a genuine IOData equal to `base` except that `attr` reads as None (dropping what it would be derived from)"""
    from iodata import IOData

    init = [p for p in inspect.signature(IOData.__init__).parameters if p != "self"]
    fields = {p: getattr(base, p) for p in init}
    for drop in ([attr], [attr, "nelec", "charge"], [attr, "mo"], [attr, "mo", "nelec", "charge", "spinpol"], [attr, "atnums"],
                 [attr, "atnums", "mo", "nelec", "charge", "spinpol"]):
        f = dict(fields)
        for d in drop:
            f[d] = None
        try:
            obj = IOData(**f)
        except Exception:
            continue
        if getattr(obj, attr) is None:
            return obj, drop
    return None, None


ITERABLES = ["list", "tuple", "generator", "iterator", "map"]


def _as_iterable(kind, frames):
    if kind == "list":
        return list(frames)
    if kind == "tuple":
        return tuple(frames)
    if kind == "generator":
        return (f for f in frames)
    if kind == "iterator":
        return iter(list(frames))
    return map(lambda f: f, frames)


def check_required(modname, op, attr, base_name=None, objs=None, iterable="list"):
    """dump with `attr` None must raise PrepareDumpError before the output file is opened (for dump_many: whatever
    kind of iterable delivers the frames)"""
    import builtins

    from iodata import api
    from iodata.utils import PrepareDumpError

    mod = api.FORMAT_MODULES[modname]
    func = getattr(mod, op)
    objs = objs if objs is not None else _pool_objects()
    cands = [(n, o) for n, o in objs if (base_name is None or n == base_name) and not _missing(o, func.required)]
    if not cands:
        return "no-base-object", None, None
    bname, base = cands[0]
    obj, dropped = _without(base, attr)
    if obj is None:
        return "attribute-always-derivable", None, bname
    with tempfile.TemporaryDirectory(prefix="c17r-") as tmp:
        target = os.path.join(tmp, "out.dat")
        with open(target, "w") as fh:
            fh.write("SENTINEL")
        opened = []
        orig_open = builtins.open

        def spy(file, *a, **k):
            if str(file) == target:
                opened.append(a[:1] or k.get("mode"))
            return orig_open(file, *a, **k)

        builtins.open = spy
        try:
            with warnings.catch_warnings():
                warnings.simplefilter("ignore")
                if op == "dump_one":
                    api.dump_one(obj, target, fmt=modname)
                else:
                    api.dump_many(_as_iterable(iterable, [obj, obj]), target, fmt=modname)
            outcome = "no-exception"
        except PrepareDumpError:
            outcome = "PrepareDumpError"
        except Exception as exc:
            outcome = type(exc).__name__
        finally:
            builtins.open = orig_open
        content = orig_open(target).read()
    sig = f"required-not-enforced:{modname}.{op}:{attr}" + ("" if iterable == "list" else f":{iterable}")
    if outcome != "PrepareDumpError":
        return "bad", (sig, f"{modname}.{op} with {attr}=None (object from {bname}, dropped {dropped}) ended with {outcome} instead of PrepareDumpError"), bname
    if opened or content != "SENTINEL":
        return "bad", (sig, f"{modname}.{op} with {attr}=None raised PrepareDumpError after opening/overwriting the output file"), bname
    return "ok", None, bname


def search(ctx):
    rng = ctx.rng
    reg = _registry()
    # (1) selection predicate on sampled generated names (the exhaustive run is the correspondence)
    names = _names(reg)
    k = ctx.n(4000, 40000) * (3 if ctx.escalated else 1)
    sample = names if k >= len(names) else rng.sample(names, k)
    modnames = [n for n, _, _ in reg]
    for n, cls in sample:
        a = rng.choice(OPS)
        f = None if rng.random() < 0.7 else rng.choice(modnames + ["nope", "XYZ", ""])
        d = rng.choice(["", "", "d/", "x.xyz/", "FCIDUMP/"])
        r = check_select(d + n, a, f)
        ctx.count("search-select", [d + n, a, f], cls.split("/")[0] + ("/explicit" if f else "/guess") + ("/ok" if r is None else "/" + r[0]))
        if r:
            ctx.fail(r[0], r[1], {"kind": "select", "path": d + n, "attr": a, "fmt": f})
    # (2) guaranteed attributes on every corpus file that loads (+ files generated from them)
    from multiprocessing import Pool

    corpus = [n for n in _corpus_names() if not n.endswith((".py", ".npy"))]
    corpus.sort(key=lambda n: (0 if "pvqz" in n else 1, n))
    with Pool(min(16, os.cpu_count() or 1)) as pool:
        results = pool.map(_corpus_worker, [(n, True) for n in corpus], chunksize=1)
    nloaded = 0
    for res in results:
        for name, op, modname, status, missing in res:
            ok = not missing
            nloaded += status.startswith(("loaded", "generated"))
            ctx.count("search-guaranteed", [name, op], f"{modname}.{op}/{status}" + ("" if ok else "/guaranteed-none"),
                      nontrivial=status.startswith(("loaded", "generated")))
            for a in missing:
                ctx.fail(f"guaranteed-none:{modname}.{op}:{a}",
                         f"{modname}.{op} declares {a} as guaranteed but it is None after loading {name}",
                         {"kind": "guaranteed", "file": name, "op": op, "module": modname, "attr": a})
    ctx.extra_cov["corpus_objects_checked_against_guaranteed"] = nloaded
    # (2b) mutated corpus files that still load must satisfy the guaranteed list, too
    small = [n for n in corpus if (REPO / "iodata" / "test" / "data" / n).stat().st_size < 40_000
             and not n.endswith((".molden", ".mkl", ".mwfn", ".molden.input")) and "cp2k" not in n]
    per = ctx.n(6, 40) * (3 if ctx.escalated else 1)
    base = ctx.rng.randrange(10**6)
    with Pool(min(16, os.cpu_count() or 1)) as pool:
        mres = pool.map(_mutant_worker, [(n, list(range(base, base + per))) for n in small], chunksize=2)
    nmut = 0
    for res in mres:
        for name, sd, kind, modname, status, missing in res:
            nmut += status == "loaded"
            ctx.count("search-guaranteed-mutants", [name, sd], f"{modname}/{kind}/{status.split(':')[0]}" + ("/guaranteed-none" if missing else ""),
                      nontrivial=status == "loaded")
            for a in missing:
                ctx.fail(f"guaranteed-none:{modname}.load_one:{a}",
                         f"{modname}.load_one declares {a} as guaranteed but it is None after loading a variant of {name} "
                         f"({kind}, seed {sd}) that loads without error",
                         {"kind": "guaranteed-mutant", "file": name, "seed": sd, "module": modname, "attr": a})
    ctx.extra_cov["mutated_files_loaded_and_checked_against_guaranteed"] = nmut
    # (2b') selection failures of the public entry points happen before the file is touched
    for fn in ("load_one", "load_many", "dump_one", "dump_many"):
        for name, fmt in (("x.unknownext", None), ("noext", None), ("x.xyz", "nope"), ("x.xyz", ""),
                          (("POSCAR.1", None) if fn in ("load_many", "dump_many") else ("x.log", None) if fn == "dump_one" else ("x.nothing", None)),
                          ("x.dat2", "gaussianlog" if fn.startswith("dump") or fn == "load_many" else "nope")):
            bad = check_api_select_before_open(fn, name, fmt)
            ctx.count("search-select-before-open", [fn, name, fmt], "ok" if bad is None else "bad")
            if bad:
                ctx.fail(bad[0], bad[1], {"kind": "select-before-open", "fn": fn, "name": name, "fmt": fmt})
    # (2c) names that are not programs with an input writer (helper modules of the package, format names, misspellings)
    import pkgutil

    import iodata.inputs as _inp

    helpers = [mi.name for mi in pkgutil.iter_modules(_inp.__path__)
               if not hasattr(__import__("iodata.inputs." + mi.name, fromlist=["x"]), "write_input")]
    for name in helpers + ["", "xyz", "Gaussian", "orca ", "inputs", "__init__"]:
        bad = check_input_name(name)
        ctx.count("search-input-name", name, "ok" if bad is None else "bad")
        if bad:
            ctx.fail(bad[0], bad[1], {"kind": "input-name", "name": name})
    # (3) required attributes are enforced before the file is opened
    objs = _pool_objects()
    from iodata.api import FORMAT_MODULES

    for modname, mod in FORMAT_MODULES.items():
        for op in ("dump_one", "dump_many"):
            func = getattr(mod, op, None)
            if func is None:
                continue
            for attr in func.required:
                status, bad, bname = check_required(modname, op, attr, objs=objs)
                ctx.count("search-required", [modname, op, attr], f"{modname}.{op}/{status}", nontrivial=status in ("ok", "bad"))
                if bad:
                    ctx.fail(bad[0], bad[1], {"kind": "required", "module": modname, "op": op, "attr": attr, "base": bname})
                if op == "dump_many":
                    for it in ITERABLES[1:]:
                        status, bad, bname = check_required(modname, op, attr, objs=objs, iterable=it)
                        ctx.count("search-required", [modname, op, attr, it], f"{modname}.{op}/{it}/{status}", nontrivial=status in ("ok", "bad"))
                        if bad:
                            ctx.fail(bad[0], bad[1], {"kind": "required", "module": modname, "op": op, "attr": attr, "base": bname,
                                                      "iterable": it})


def check_input_name(name):
    """write_input with a format name that is not a program with a writer: FileFormatError, target untouched"""
    import numpy as np
    from iodata import IOData, write_input
    from iodata.utils import FileFormatError

    mol = IOData(atnums=np.array([8, 1, 1]), atcoords=np.array([[0, 0, 0.0], [0, 1.4, 1.1], [0, -1.4, 1.1]]))
    with tempfile.TemporaryDirectory(prefix="c17i-") as tmp:
        target = os.path.join(tmp, "job.in")
        with open(target, "w") as fh:
            fh.write("SENTINEL")
        try:
            with warnings.catch_warnings():
                warnings.simplefilter("ignore")
                write_input(mol, target, fmt=name)
            outcome = "no-exception"
        except FileFormatError:
            outcome = "FileFormatError"
        except Exception as exc:  # noqa: BLE001
            outcome = type(exc).__name__
        content = open(target).read()
    if outcome != "FileFormatError" or content != "SENTINEL":
        return (f"input-format-name:{name}", f"write_input(fmt={name!r}) ended with {outcome}"
                + ("" if content == "SENTINEL" else " after overwriting the existing output file") + "; expected FileFormatError, file untouched")
    return None


def check_api_select_before_open(fn, name, fmt):
    """the public entry points on a path that does not exist, with a name / format for which selection fails: the
    documented FileFormatError comes before any attempt to open the file (no FileNotFoundError, nothing created)"""
    import builtins

    import numpy as np
    from iodata import IOData, api
    from iodata.utils import FileFormatError

    mol = IOData(atnums=np.array([1]), atcoords=np.zeros((1, 3)))
    opened = []
    orig_open = builtins.open

    def spy(file, *a, **k):
        opened.append(str(file))
        return orig_open(file, *a, **k)

    with tempfile.TemporaryDirectory(prefix="c17s-") as tmp:
        path = os.path.join(tmp, name)
        builtins.open = spy
        try:
            with warnings.catch_warnings():
                warnings.simplefilter("ignore")
                kw = {} if fmt is None else {"fmt": fmt}
                if fn == "load_one":
                    api.load_one(path, **kw)
                elif fn == "load_many":
                    for _ in api.load_many(path, **kw):
                        break
                elif fn == "dump_one":
                    api.dump_one(mol, path, **kw)
                else:
                    api.dump_many([mol], path, **kw)
            outcome = "no-exception"
        except FileFormatError:
            outcome = "FileFormatError"
        except Exception as exc:  # noqa: BLE001
            outcome = type(exc).__name__
        finally:
            builtins.open = orig_open
        touched = [p for p in opened if p == path] or (["created"] if os.path.exists(path) else [])
    if outcome != "FileFormatError" or touched:
        return (f"select-after-open:{fn}", f"{fn}({name!r}, fmt={fmt!r}) on a missing path: {outcome}"
                + (", the path was opened" if touched else "") + "; expected FileFormatError before any file access")
    return None


def _replay_mutant(inp):
    res = _mutant_worker((inp["file"], [inp["seed"]]))
    return any(inp["attr"] in r[5] for r in res)


def replay(ctx, obj):
    if obj["input"].get("kind") == "guaranteed-mutant":
        return _replay_mutant(obj["input"])
    inp = obj["input"]
    if inp["kind"] == "select":
        return check_select(inp["path"], inp["attr"], inp["fmt"]) is not None
    if inp["kind"] == "guaranteed":
        name = inp["file"].split("->")[0]
        for res in _corpus_worker((name, "->" in inp["file"])):
            if res[0] == inp["file"] and res[1] == inp["op"] and inp["attr"] in res[4]:
                return True
        return False
    if inp["kind"] == "select-before-open":
        return check_api_select_before_open(inp["fn"], inp["name"], inp["fmt"]) is not None
    if inp["kind"] == "input-name":
        return check_input_name(inp["name"]) is not None
    if inp["kind"] == "required":
        status, bad, _ = check_required(inp["module"], inp["op"], inp["attr"], base_name=inp.get("base"), iterable=inp.get("iterable", "list"))
        return bad is not None
    return True
