"""C20 — numerical helpers of iodata/utils.py return what their documentation says."""

from __future__ import annotations

import ast
import itertools
from fractions import Fraction

import numpy as np

from ..engine import REPO, lean_list, lean_str

MODULES = ["Iodata.Props.C20"]
RULE = (
    "four: every index quadruple for n<=4 (n<=6 thorough) plus random n<=12, compared as the sorted set of flat "
    "positions that differ from the background after the real call (non-trivial = not all four indices equal); "
    "vol: 1-3 integer/dyadic vectors incl. every permutation and sign flip of each drawn set, degenerate sets and "
    "0/4-vector rejections (non-trivial = volume not zero); strtobool: every letter-case variant of every vocabulary "
    "word, one-character edits of them, non-ASCII case-folding characters, random strings; checkdm: occupation lists "
    "with values on, just inside and just outside both thresholds (dyadic, exact in binary64), derive_naturals "
    "replaced by a stub returning them; search: derive_naturals/check_dm on D = C diag(n) C^T with random SPD overlap, "
    "sizes 1-12, degenerate/zero occupations (residuals against a bound from the condition number)"
)
TRUSTED = [
    "ast extraction of the index patterns of set_four_index_element; the STRTOBOOL dict is read from the imported module",
    "scipy.linalg.eigh / LAPACK (derive_naturals is proved only relative to the eigen-solver contract; the contract's "
    "residuals are checked numerically)",
]
ASSUMPTIONS = [
    "numpy item assignment a[i,j,k,l] = v with in-range non-negative integer indices writes exactly that element",
    "np.linalg.norm / np.cross / np.linalg.det on 3-vectors equal the exact rational expressions of Model/Helpers.lean "
    "up to the forward-error bound used by the vol stream (16 u per squared norm, 64 u times the product of row 1-norms for det)",
    "str.lower is modelled by ASCII case folding; no non-ASCII character lower-cases to a letter of the vocabulary "
    "(checked for the whole BMP + astral case-folding characters on every run)",
    "check_dm is modelled as decision logic over the occupations returned by derive_naturals (stubbed in the checkdm stream)",
    "derive_naturals theorem is over an abstract eigen-solver satisfying S^T D S C = S C diag(n), C^T S C = 1",
]

WORDS_TRUE = ["y", "yes", "t", "true", "on", "1"]
WORDS_FALSE = ["n", "no", "f", "false", "off", "0"]


# --------------------------------------------------------------------------- T1
def _utils_ast():
    src = (REPO / "iodata" / "utils.py").read_text()
    tree = ast.parse(src)
    funcs = {n.name: n for n in tree.body if isinstance(n, ast.FunctionDef)}
    return tree, funcs


def _four_patterns(fn):
    args = [a.arg for a in fn.args.args]
    arr, idx, val = args[0], args[1:5], args[5]
    pats = []
    for st in fn.body:
        if isinstance(st, ast.Expr) and isinstance(st.value, ast.Constant):
            continue  # docstring
        if not (isinstance(st, ast.Assign) and len(st.targets) == 1 and isinstance(st.targets[0], ast.Subscript)):
            raise ValueError("set_four_index_element: statement is not an item assignment: " + ast.unparse(st))
        t = st.targets[0]
        if not (isinstance(t.value, ast.Name) and t.value.id == arr and isinstance(st.value, ast.Name) and st.value.id == val):
            raise ValueError("set_four_index_element: unexpected assignment " + ast.unparse(st))
        sl = t.slice
        if not (isinstance(sl, ast.Tuple) and len(sl.elts) == 4 and all(isinstance(e, ast.Name) and e.id in idx for e in sl.elts)):
            raise ValueError("set_four_index_element: unexpected index " + ast.unparse(st))
        pats.append([idx.index(e.id) for e in sl.elts])
    return pats


def _lean_chars(s):
    out = []
    for c in s:
        if 32 < ord(c) < 127 and c not in "'\\":
            out.append(f"'{c}'")
        else:
            out.append(f"Char.ofNat {ord(c)}")
    return "[" + ",".join(out) + "]"


def translate(ctx):
    import iodata.utils as u

    _, funcs = _utils_ast()
    pats = _four_patterns(funcs["set_four_index_element"])
    table = u.STRTOBOOL
    if not all(isinstance(k, str) and isinstance(v, bool) for k, v in table.items()):
        raise ValueError("STRTOBOOL is not a str -> bool dict")
    body = ["import Iodata.Model.Helpers", "namespace Iodata.Gen.Helpers", ""]
    body.append("/-- index patterns of the item assignments of `set_four_index_element`, in source order -/")
    body.append("def fourPatterns : List (List Nat) :=\n  " + lean_list(pats, lambda p: lean_list(p)) + "\n")
    body.append("/-- the `STRTOBOOL` dict of the imported module, in dict order -/")
    body.append("def strtoboolTable : List (List Char × Bool) :=\n  "
                + lean_list(table.items(), lambda kv: f"({_lean_chars(kv[0])}, {'true' if kv[1] else 'false'})") + "\n")
    body.append("end Iodata.Gen.Helpers\n")
    ctx.gen_write("Helpers", "\n".join(body))


# --------------------------------------------------------------------------- T2
U = Fraction(1, 2**53)


def _exc_class(exc):
    for cls in ("TypeError", "ValueError", "LoadError", "PrepareDumpError", "DumpError", "FileFormatError", "WriteInputError"):
        if type(exc).__name__ == cls:
            return cls
    return "Other:" + type(exc).__name__


def impl_four(n, i, j, k, l):
    from iodata.utils import set_four_index_element

    a = np.full((n, n, n, n), 7.0)
    try:
        set_four_index_element(a, i, j, k, l, 3.0)
    except Exception as exc:
        return "err " + _exc_class(exc)
    pos = np.flatnonzero(a != 7.0)
    if not np.all(a.ravel()[pos] == 3.0):
        return "bad-value"
    return "ok " + ",".join(str(int(p)) for p in pos)


def _four_cases(ctx):
    cases = []
    nmax = ctx.n(4, 6)
    for n in range(1, nmax + 1):
        for q in itertools.product(range(n), repeat=4):
            cases.append((n, *q, f"exhaustive-n{n}"))
    for _ in range(ctx.n(300, 3000)):
        n = ctx.rng.randint(nmax + 1, 12)
        m = ctx.rng.choice([n, n, 2, 3])  # few distinct values -> coincidences
        q = [ctx.rng.randrange(min(n, m)) if ctx.rng.random() < 0.5 else ctx.rng.randrange(n) for _ in range(4)]
        cases.append((n, *q, "random-n7-12"))
    return cases


def _fr(x):
    return Fraction(x)


def _enc_fr(fr):
    return str(fr.numerator) if fr.denominator == 1 else f"{fr.numerator}/{fr.denominator}"


def _enc_vecs(vs):
    return ";".join(",".join(_enc_fr(x) for x in v) for v in vs) if vs else "@"


def _rand_vec(rng, kind):
    if kind == "int":
        return [Fraction(rng.randint(-9, 9)) for _ in range(3)]
    if kind == "dyadic":
        return [Fraction(rng.randint(-2**12, 2**12), 2 ** rng.randint(0, 8)) for _ in range(3)]
    if kind == "axis":
        v = [Fraction(0)] * 3
        v[rng.randrange(3)] = Fraction(rng.randint(1, 20), 2)
        return v
    return [Fraction(rng.randint(-(2**19), 2**19)) for _ in range(3)]  # "large": products still exact in binary64


def _vol_cases(ctx):
    rng = ctx.rng
    cases = [([], "count-0"),
             ([[Fraction(1), Fraction(0), Fraction(0)], [Fraction(0), Fraction(0), Fraction(1)], [Fraction(0), Fraction(1), Fraction(0)]],
              "left-handed-unit")]
    for _ in range(ctx.n(300, 2500)):
        kind = rng.choice(["int", "int", "dyadic", "axis", "large"])
        nv = rng.choice([1, 2, 3, 3, 3])
        vs = [_rand_vec(rng, kind) for _ in range(nv)]
        r = rng.random()
        if nv >= 2 and r < 0.15:  # degenerate: parallel / repeated / zero vector
            t = rng.choice([0, 1, -2, 3])
            vs[-1] = [t * x for x in vs[0]]
        for perm in itertools.permutations(range(nv)):
            for flips in itertools.product([1, -1], repeat=nv):
                w = [[f * x for x in vs[p]] for p, f in zip(perm, flips)]
                cases.append((w, f"{nv}vec-{kind}" + ("-perm" if list(perm) != sorted(perm) else "") + ("-flip" if -1 in flips else "")))
    for _ in range(ctx.n(5, 40)):
        cases.append(([_rand_vec(rng, "int") for _ in range(rng.choice([4, 5]))], "count-4+"))
    return cases


def _vol_impl_line(vs, model_line, oned=False):
    from iodata.utils import volume

    arr = np.array([[float(x) for x in v] for v in vs], dtype=float).reshape(len(vs), 3)
    if oned:
        arr = arr[0]
    try:
        r = volume(arr)
    except Exception as exc:
        return "err " + _exc_class(exc)
    r = float(r)
    if r != r:
        return "nan"
    if r < 0:
        return f"negative {r!r}"
    fr = Fraction(r)
    parts = model_line.split(" ")
    if parts[0] == "exact" and len(vs) == 3:
        v = Fraction(parts[1])
        bound = 64 * U
        for row in vs:
            bound *= sum(abs(x) for x in row)
        return model_line if abs(fr - v) <= bound else f"exact {fr.numerator}/{fr.denominator}"
    if parts[0] == "root":
        q = Fraction(parts[1])
        ok = (fr == 0) if q == 0 else abs(fr * fr - q) <= 16 * U * q
        if ok:
            return model_line
        sq = fr * fr
        return f"root {sq.numerator}/{sq.denominator}"
    return f"value {r!r}"


def _case_variants(w):
    return {"".join(t) for t in itertools.product(*[(c.lower(), c.upper()) for c in w])}


def _strtobool_cases(ctx):
    rng = ctx.rng
    import iodata.utils as u

    vocab = sorted(set(WORDS_TRUE + WORDS_FALSE) | set(u.STRTOBOOL))
    cases = {}
    for w in vocab:
        for v in _case_variants(w):
            cases.setdefault(v, "vocabulary-case-variant")
    alphabet = "abcdefghijklmnopqrstuvwxyzABCDEFGHIJKLMNOPQRSTUVWXYZ0123456789 _-\t\n"
    for w in vocab:
        for i in range(len(w) + 1):
            for c in "yestrufalsonf01 YN\n":
                cases.setdefault(w[:i] + c + w[i:], "one-char-insert")
            if i < len(w):
                cases.setdefault(w[:i] + w[i + 1:], "one-char-delete")
                for c in "yestrufalsonf01":
                    cases.setdefault(w[:i] + c + w[i + 1:], "one-char-replace")
    for s in ["", " ", "İ", "K", "ſ", "ｙｅｓ", "ＹＥＳ", "ŷes", "trué", "oņ", "ΟΝ", "оn", "1٠", "١", "ß", "yeſ",
              "true\x00", "\x00", "ÿ", "Ｙ", "ﬀ", "oﬀ", "OﬀF", "𝐲𝐞𝐬", "nO​"]:
        cases.setdefault(s, "non-ascii")
    for w in ["enable", "enabled", "disable", "none", "null", "2", "-1", "00", "01", "ja", "oui", "si", "ok", "tr", "fa", "truee", "yess"]:
        for v in (w, w.upper(), w.title()):
            cases.setdefault(v, "other-words")
    for _ in range(ctx.n(500, 20000)):
        n = rng.choice([1, 1, 2, 2, 3, 4, 5, 6])
        cases.setdefault("".join(rng.choice(alphabet) for _ in range(n)), "random")
    return list(cases.items())


def impl_strtobool(s):
    from iodata.utils import strtobool

    try:
        r = strtobool(s)
    except Exception as exc:
        return "err " + _exc_class(exc)
    return "ok True" if r is True else "ok False" if r is False else f"ok Other:{r!r}"


def _checkdm_cases(ctx):
    rng = ctx.rng
    tiny = Fraction(1, 2**40)
    cases = []
    for _ in range(ctx.n(600, 12000)):
        eps = rng.choice([Fraction(1, 16), Fraction(1, 1024), Fraction(0), Fraction(1, 2**13), Fraction(1, 4)])
        occ_max = rng.choice([Fraction(1), Fraction(2), Fraction(1, 2), Fraction(1)])
        lo, hi = -eps, occ_max + eps
        n = rng.randint(1, 8)
        occs = [Fraction(rng.randint(0, 2**10), 2**10) * occ_max for _ in range(n)]
        kind = rng.choice(["inside", "on-lo", "on-hi", "below", "above", "both", "just-below", "just-above", "on-both"])
        i = rng.randrange(n)
        j = rng.randrange(n)
        if kind == "on-lo":
            occs[i] = lo
        elif kind == "on-hi":
            occs[i] = hi
        elif kind == "below":
            occs[i] = lo - Fraction(rng.randint(1, 2**10), 2**10)
        elif kind == "above":
            occs[i] = hi + Fraction(rng.randint(1, 2**10), 2**10)
        elif kind == "both":
            occs = occs + [hi + 1]
            occs[i] = lo - 1
            rng.shuffle(occs)
        elif kind == "just-below":
            occs[i] = lo - tiny
        elif kind == "just-above":
            occs[i] = hi + tiny
        elif kind == "on-both":
            occs = occs + [hi]
            occs[j] = lo
        cases.append((eps, occ_max, occs, kind, False))
    # default arguments (eps = 1e-4 is not dyadic-short; stay 2^-30 away from the rounded thresholds)
    import inspect

    import iodata.utils as u

    sig = inspect.signature(u.check_dm)
    deps, dmax = Fraction(float(sig.parameters["eps"].default)), Fraction(float(sig.parameters["occ_max"].default))
    for _ in range(ctx.n(60, 600)):
        n = rng.randint(1, 6)
        occs = [Fraction(rng.randint(0, 2**10), 2**10) * dmax for _ in range(n)]
        kind = rng.choice(["inside", "below", "above", "near-lo-in", "near-hi-in", "near-lo-out", "near-hi-out"])
        i = rng.randrange(n)
        d = Fraction(1, 2**30)
        if kind == "below":
            occs[i] = -deps - Fraction(1, 8)
        elif kind == "above":
            occs[i] = dmax + deps + Fraction(1, 8)
        elif kind == "near-lo-in":
            occs[i] = Fraction(float(-deps + d))
        elif kind == "near-hi-in":
            occs[i] = Fraction(float(dmax + deps - d))
        elif kind == "near-lo-out":
            occs[i] = Fraction(float(-deps - d))
        elif kind == "near-hi-out":
            occs[i] = Fraction(float(dmax + deps + d))
        cases.append((deps, dmax, [Fraction(float(x)) for x in occs], "default-args-" + kind, True))
    return cases


def impl_checkdm(eps, occ_max, occs, use_defaults):
    import iodata.utils as u

    arr = np.array([float(x) for x in occs])
    assert all(Fraction(float(x)) == x for x in occs) and Fraction(float(eps)) == eps
    saved = u.derive_naturals
    u.derive_naturals = lambda dm, overlap: (None, arr)
    try:
        if use_defaults:
            u.check_dm(None, None)
        else:
            u.check_dm(None, None, eps=float(eps), occ_max=float(occ_max))
    except ValueError as exc:
        m = str(exc)
        return "err ValueError:min" if "smaller than" in m else "err ValueError:max" if "larger than" in m else "err ValueError:other"
    except Exception as exc:
        return "err " + _exc_class(exc)
    finally:
        u.derive_naturals = saved
    return "ok"


def _unicode_lower_assumption():
    vocab_chars = set("".join(WORDS_TRUE + WORDS_FALSE))
    bad = []
    for cp in itertools.chain(range(0x80, 0xD800), range(0xE000, 0x110000)):
        lo = chr(cp).lower()
        if lo != chr(cp) and any(c in vocab_chars for c in lo):
            bad.append(cp)
    return bad


def correspond(ctx):
    # four
    cases = _four_cases(ctx)
    reqs = [f"four {n} {i} {j} {k} {l}" for n, i, j, k, l, _ in cases]
    outs = [impl_four(n, i, j, k, l) for n, i, j, k, l, _ in cases]
    nontriv = [len({i, j, k, l}) > 1 for _, i, j, k, l, _ in cases]
    classes = [f"{c}/distinct-indices={len({i, j, k, l})}" for _, i, j, k, l, c in cases]
    ctx.corr("four", reqs, outs, nontriv, classes)
    ctx.extra_cov["four_exhaustive_n_max"] = ctx.n(4, 6)
    # vol
    cases = _vol_cases(ctx)
    reqs = ["vol " + _enc_vecs(vs) for vs, _ in cases]
    model = ctx.driver(reqs)
    outs = [_vol_impl_line(vs, m) for (vs, _), m in zip(cases, model)]
    nontriv = [not (m.startswith("err") or m.endswith(" 0/1")) for m in model]
    ctx.corr("vol", reqs, outs, nontriv, [c for _, c in cases])
    one = [(vs, c) for vs, c in cases if len(vs) == 1]
    reqs = ["vol " + _enc_vecs(vs) for vs, _ in one]
    model = ctx.driver(reqs)
    ctx.corr("vol", reqs, [_vol_impl_line(vs, m, oned=True) for (vs, _), m in zip(one, model)],
             [not m.endswith(" 0/1") for m in model], ["1d-array-" + c for _, c in one])
    # strtobool
    bad = _unicode_lower_assumption()
    ctx.obligation("assumption:no-non-ascii-char-lowercases-into-the-vocabulary", not bad, f"code points {bad[:10]}")
    cases = _strtobool_cases(ctx)
    reqs = ["strtobool " + (",".join(str(ord(c)) for c in s) if s else "@") for s, _ in cases]
    outs = [impl_strtobool(s) for s, _ in cases]
    ctx.corr("strtobool", reqs, outs, None, [f"{c}/{o}" for (_, c), o in zip(cases, outs)])
    # checkdm
    cases = _checkdm_cases(ctx)
    reqs = [f"checkdm {_enc_fr(e)} {_enc_fr(m)} " + ",".join(_enc_fr(o) for o in occs) for e, m, occs, _, _ in cases]
    outs = [impl_checkdm(e, m, occs, d) for e, m, occs, _, d in cases]
    ctx.corr("checkdm", reqs, outs, None, [f"{c}/{o}" for (_, _, _, c, _), o in zip(cases, outs)])


# --------------------------------------------------------------------------- S (real code only)
def _orbit(q):
    """closure of q under electron swap and the two real-orbital swaps (independent of the model)"""
    seen = {tuple(q)}
    todo = [tuple(q)]
    while todo:
        i, j, k, l = todo.pop()
        for p in ((j, i, l, k), (k, j, i, l), (i, l, k, j)):
            if p not in seen:
                seen.add(p)
                todo.append(p)
    return seen


def check_four(n, q):
    from iodata.utils import set_four_index_element

    want = _orbit(q)
    # several values incl. exactly 0.0 and a value equal to nothing in the pre-filled array:
    # the assignment must be unconditional
    for value in (-1.0, 0.0, 7.25):
        a = np.arange(n**4, dtype=float).reshape(n, n, n, n) + 0.5
        before = a.copy()
        set_four_index_element(a, *q, value)
        got = {tuple(int(x) for x in p) for p in np.argwhere(a != before)}
        if got != want:
            miss, extra = sorted(want - got), sorted(got - want)
            return ("four-positions",
                    f"set_four_index_element(n={n}, {q}, value={value}): missing {miss[:4]} extra {extra[:4]}")
        if any(a[p] != value for p in want):
            return ("four-value", "a written position does not hold the value")
    return None


def check_volume(vs):
    """vs: list of 1-3 float 3-vectors"""
    from iodata.utils import volume

    a = np.array(vs, dtype=float)
    v = float(volume(a))
    scale = float(np.prod(np.linalg.norm(a, axis=1)))
    tol = 1e-12 * scale
    if not v >= 0:
        return ("volume-negative", f"volume({a.tolist()}) = {v!r}")
    gram = float(np.linalg.det(a @ a.T))
    if abs(v * v - gram) > 1e-10 * scale * scale:
        return ("volume-gram", f"volume({a.tolist()})^2 = {v*v!r}, Gram determinant {gram!r}")
    nv = len(vs)
    for perm in itertools.permutations(range(nv)):
        for flips in itertools.product([1.0, -1.0], repeat=nv):
            b = np.array([f * a[p] for p, f in zip(perm, flips)])
            w = float(volume(b))
            if abs(w - v) > tol:
                return ("volume-order-handedness", f"volume({b.tolist()}) = {w!r} but volume({a.tolist()}) = {v!r}")
    if nv == 1 and abs(float(volume(a[0])) - v) > tol:
        return ("volume-1d", "1-D argument differs from the (1,3) argument")
    return None


def check_strtobool(s):
    from iodata.utils import strtobool

    low = s.lower()
    want = True if low in WORDS_TRUE else False if low in WORDS_FALSE else None
    try:
        got = strtobool(s)
    except ValueError:
        got = None
    except Exception as exc:
        return (f"strtobool-exception:{type(exc).__name__}", f"strtobool({s!r}) raised {type(exc).__name__}")
    if got is want:
        return None
    if want is None:
        return (f"strtobool-accepts-undocumented:{low}", f"strtobool({s!r}) = {got!r} but {low!r} is not a documented word")
    if got is None:
        return (f"strtobool-rejects-documented:{low}", f"strtobool({s!r}) raised ValueError but {low!r} is documented")
    return (f"strtobool-wrong-value:{low}", f"strtobool({s!r}) = {got!r}, documented {want!r}")


def _rand_problem(rng, n, kind):
    """S SPD with moderate condition number, C with C^T S C = I, occupations occ, D = C diag(occ) C^T"""
    g = np.random.default_rng(rng.getrandbits(32))
    a = g.normal(size=(n, n))
    s = a @ a.T / n + np.eye(n) * (0.5 + g.random())
    s = (s + s.T) / 2
    ell = np.linalg.cholesky(s)
    qm, _ = np.linalg.qr(g.normal(size=(n, n)))
    c = np.linalg.solve(ell.T, qm)
    if kind == "generic":
        occ = g.random(n) * 2 - 0.5
    elif kind == "degenerate":
        occ = np.repeat(g.random((n + 2) // 3), 3)[:n]
    elif kind == "zeros":
        occ = np.where(g.random(n) < 0.5, 0.0, g.random(n))
    elif kind == "integer":
        occ = g.integers(0, 3, size=n).astype(float)
    else:  # "closed-shell"
        occ = np.array([1.0] * (n // 2) + [0.0] * (n - n // 2))
    d = c @ np.diag(occ) @ c.T
    d = (d + d.T) / 2
    return s, d, occ


def check_naturals(s, d, occ):
    from iodata.utils import derive_naturals

    n = len(s)
    coeffs, occs = derive_naturals(d, s)
    cond = float(np.linalg.cond(s))
    scale = max(1.0, float(np.abs(occ).max())) * cond
    tol = 1e-11 * n * scale
    if coeffs.shape != (n, n) or occs.shape != (n,):
        return ("naturals-shape", f"shapes {coeffs.shape} {occs.shape}")
    r1 = float(np.abs(coeffs.T @ s @ coeffs - np.eye(n)).max())
    if not r1 <= tol:
        return ("naturals-orthonormal", f"|C^T S C - 1| = {r1:.3e} (n={n})")
    r2 = float(np.abs(np.sort(occs) - np.sort(occ)).max())
    if not r2 <= tol:
        return ("naturals-occupations", f"occupations differ from the generalized eigenvalues by {r2:.3e} (n={n})")
    r3 = float(np.abs(coeffs @ np.diag(occs) @ coeffs.T - d).max()) / max(1.0, float(np.abs(d).max()))
    if not r3 <= tol:
        return ("naturals-reconstruct", f"|C n C^T - D| = {r3:.3e} (n={n})")
    r4 = float(np.abs(d @ s @ coeffs - coeffs @ np.diag(occs)).max()) / max(1.0, float(np.abs(d).max()))
    if not r4 <= tol:
        return ("naturals-eigen", f"|D S C - C n| = {r4:.3e} (n={n})")
    return None


def check_checkdm(s, d, occ, eps, occ_max):
    """occupations are at least 100*tolerance away from both thresholds"""
    from iodata.utils import check_dm

    inside = bool(occ.min() >= -eps and occ.max() <= occ_max + eps)
    try:
        check_dm(d, s, eps=eps, occ_max=occ_max)
        acc = True
    except ValueError:
        acc = False
    except Exception as exc:
        return (f"checkdm-exception:{type(exc).__name__}", f"check_dm raised {type(exc).__name__}")
    if acc and not inside:
        return ("checkdm-accepts-out-of-range", f"occupations {occ.tolist()} accepted with eps={eps} occ_max={occ_max}")
    if inside and not acc:
        return ("checkdm-rejects-in-range", f"occupations {occ.tolist()} rejected with eps={eps} occ_max={occ_max}")
    return None


def check_checkdm_stub(eps, occ_max, occs):
    """decision logic of the real check_dm on exactly representable occupations (derive_naturals stubbed);
    eps/occ_max/occs are strings of Fractions"""
    eps, occ_max, occs = Fraction(eps), Fraction(occ_max), [Fraction(o) for o in occs]
    got = impl_checkdm(eps, occ_max, occs, False)
    inside = all(-eps <= o <= occ_max + eps for o in occs)
    if got == "ok" and not inside:
        return ("checkdm-accepts-out-of-range", f"occupations {[str(o) for o in occs]} accepted with eps={eps} occ_max={occ_max}")
    if got != "ok" and inside:
        return ("checkdm-rejects-in-range", f"occupations {[str(o) for o in occs]} rejected ({got}) with eps={eps} occ_max={occ_max}")
    if got not in ("ok", "err ValueError:min", "err ValueError:max"):
        return ("checkdm-exception", f"check_dm: {got}")
    return None


def _dm_case(rng, n):
    kind = rng.choice(["generic", "degenerate", "zeros", "integer", "closed-shell"])
    shape = rng.choice(["dense", "dense", "blocks", "diagonal", "unit-overlap"]) if n >= 2 else rng.choice(["dense", "diagonal"])
    if shape == "unit-overlap":
        # orthonormal basis written as an integer or single-precision identity, dense density matrix
        g = np.random.default_rng(rng.getrandbits(32))
        q, _ = np.linalg.qr(g.normal(size=(n, n)))
        _s, _d, occ = _rand_problem(rng, n, kind)
        d = q @ np.diag(occ) @ q.T
        eye = rng.choice([np.eye(n, dtype=int), np.eye(n, dtype=np.float32), np.eye(n)])
        return kind + "/unit-overlap", eye, (d + d.T) / 2, occ
    if shape == "blocks":
        # two non-interacting fragments: overlap and density are block diagonal, so every natural orbital has exact
        # zeros on the other fragment's basis functions (in particular on the first basis function)
        n1 = rng.randint(1, n - 1)
        s1, d1, o1 = _rand_problem(rng, n1, kind)
        s2, d2, o2 = _rand_problem(rng, n - n1, kind)
        s = np.zeros((n, n))
        d = np.zeros((n, n))
        s[:n1, :n1], s[n1:, n1:] = s1, s2
        d[:n1, :n1], d[n1:, n1:] = d1, d2
        return kind + "/blocks", s, d, np.concatenate([o1, o2])
    if shape == "diagonal":
        # orthonormal basis, density diagonal in it: the natural orbitals are the basis functions themselves
        _s, _d, occ = _rand_problem(rng, n, kind)
        # the identity overlap as callers write it: integer or single-precision arrays are legitimate arguments
        eye = rng.choice([np.eye(n), np.eye(n, dtype=int), np.eye(n, dtype=np.float32)])
        return kind + "/diagonal", eye, np.diag(occ), occ
    s, d, occ = _rand_problem(rng, n, kind)
    return kind, s, d, occ


def search(ctx):
    rng = ctx.rng
    mult = 4 if ctx.escalated else 1
    # four-index: exhaustive for n <= 3 (quick) / n <= 6 (thorough), random beyond
    nmax = ctx.n(3, 6)
    for n in range(1, nmax + 1):
        for q in itertools.product(range(n), repeat=4):
            r = check_four(n, q)
            ctx.count("search-four", [n, q], "ok" if r is None else r[0], nontrivial=len(set(q)) > 1)
            if r:
                ctx.fail(r[0], r[1], {"kind": "four", "n": n, "q": list(q)})
    for _ in range(ctx.n(200, 2000) * mult):
        n = rng.randint(2, 10)
        q = tuple(rng.randrange(n) for _ in range(4))
        r = check_four(n, q)
        ctx.count("search-four", [n, q], "ok" if r is None else r[0], nontrivial=len(set(q)) > 1, sample={"n": n, "q": q})
        if r:
            ctx.fail(r[0], r[1], {"kind": "four", "n": n, "q": list(q)})
    # volume on real-valued vectors
    g = np.random.default_rng(rng.getrandbits(32))
    for _ in range(ctx.n(400, 6000) * mult):
        nv = rng.choice([1, 2, 3, 3])
        vs = (g.normal(size=(nv, 3)) * 10.0 ** rng.randint(-2, 2)).tolist()
        if rng.random() < 0.2:
            vs = np.round(np.array(vs)).tolist()
        if all(any(x != 0 for x in v) for v in vs):
            r = check_volume(vs)
            ctx.count("search-volume", vs, f"{nv}vec/" + ("ok" if r is None else r[0]), sample={"vecs": vs})
            if r:
                ctx.fail(r[0], r[1], {"kind": "volume", "vecs": vs})
    # strtobool against the documented vocabulary
    for s, cls in _strtobool_cases(ctx):
        r = check_strtobool(s)
        ctx.count("search-strtobool", s, cls + ("/ok" if r is None else "/bad"))
        if r:
            ctx.fail(r[0], r[1], {"kind": "strtobool", "s": s})
    # check_dm decision logic on exact thresholds (derive_naturals stubbed)
    for eps, occ_max, occs, cls, dflt in _checkdm_cases(ctx):
        if dflt:
            continue
        r = check_checkdm_stub(eps, occ_max, occs)
        ctx.count("search-checkdm-exact", [str(eps), str(occ_max), [str(o) for o in occs]], cls + ("/ok" if r is None else "/" + r[0]))
        if r:
            ctx.fail(r[0], r[1], {"kind": "checkdm-stub", "eps": str(eps), "occ_max": str(occ_max), "occs": [str(o) for o in occs]})
    # derive_naturals / check_dm
    for rep in range(ctx.n(20, 120) * mult):
        for n in range(1, 13):
            kind, s, d, occ = _dm_case(rng, n)
            r = check_naturals(s, d, occ)
            ctx.count("search-naturals", [rep, n, kind], f"{kind}/" + ("ok" if r is None else r[0]))
            if r:
                ctx.fail(r[0], r[1], {"kind": "naturals", "s": s.tolist(), "d": d.tolist(), "occ": occ.tolist()})
            # thresholds placed relative to the actual extremes, with a margin far above the solver's error
            margin = 1e-6 * max(1.0, float(np.linalg.cond(s)))
            lo, hi = float(occ.min()), float(occ.max())
            for eps, occ_max, cls in [
                (max(0.0, -lo) + margin, hi, "tight-inside"),
                (max(0.0, -lo) + margin, hi + 5 * margin, "inside"),
                (max(0.0, -lo) + margin, hi - 3 * margin, "max-outside"),
                (1e-4, 1.0, "defaults"),
                (1e-4, 2.0, "occ_max-2"),
            ] + ([(-lo - margin, hi + 1.0, "min-outside")] if lo < -2 * margin else []):
                if eps < 0:
                    continue
                near = min(abs(occ + eps).min(), abs(occ - (occ_max + eps)).min())
                if near < margin / 2:
                    continue
                r = check_checkdm(s, d, occ, eps, occ_max)
                ctx.count("search-checkdm", [rep, n, cls], f"{cls}/" + ("ok" if r is None else r[0]))
                if r:
                    ctx.fail(r[0], r[1], {"kind": "checkdm", "s": s.tolist(), "d": d.tolist(), "occ": occ.tolist(),
                                          "eps": eps, "occ_max": occ_max})


def replay(ctx, obj):
    inp = obj["input"]
    k = inp["kind"]
    if k == "four":
        return check_four(inp["n"], tuple(inp["q"])) is not None
    if k == "volume":
        return check_volume(inp["vecs"]) is not None
    if k == "strtobool":
        return check_strtobool(inp["s"]) is not None
    if k == "naturals":
        return check_naturals(np.array(inp["s"]), np.array(inp["d"]), np.array(inp["occ"])) is not None
    if k == "checkdm-stub":
        return check_checkdm_stub(inp["eps"], inp["occ_max"], inp["occs"]) is not None
    if k == "checkdm":
        return check_checkdm(np.array(inp["s"]), np.array(inp["d"]), np.array(inp["occ"]), inp["eps"], inp["occ_max"]) is not None
    return True
