"""C12 — MolecularOrbitals and Shell keep their derived quantities consistent."""

from __future__ import annotations

import ast
import itertools
import multiprocessing as mp
from fractions import Fraction as Fr

import numpy as np

from .. import engine
from ..engine import lean_list, lean_str

MODULES = ["Iodata.Props.C12"]
RULE = (
    "mo: sequences [construct, assignment…] on real MolecularOrbitals objects: constructs = kinds {restricted, "
    "unrestricted, generalized, illegal} x orbital counts 0-3 x occupation patterns (None, integer closed/open, "
    "fractional, with occs_aminusb, wrong lengths, contradictory counts); assignments of occs, occs_aminusb, occsa, "
    "occsb, coeffs, energies, irreps over arrays of length 0-3 of dyadic values AND re-assignments of kind (3 legal "
    "names + an illegal one), norba, norbb (None, 0-3); quick: every construct x ALL pairs of assignments (re-assignments "
    "included) + every construct x [re-assignment, any assignment, re-assignment] + random sequences of length <= 8 "
    "with random values (about every fourth operation a re-assignment, array lengths drawn from the counts the "
    "re-assignments would produce); thorough: ALL triples + longer random. "
    "shl: shells with 0-4 contractions, l 0-9, kinds c/p/illegal, coeffs of 1-3 dimensions, assignment sequences. "
    "After EVERY operation the exception class and all observables (kind, norba, norbb, occs, occs_aminusb, occsa, "
    "occsb, nelec, spinpol, norb, alpha/beta views of coeffs/energies/irreps; nbasis, ncon, nexp, shapes) are compared "
    "with the Lean model. search: the property's predicates on the real code only, after every step of random "
    "histories (same operation set): array lengths = norb, kind fits the counts, occs_aminusb only when restricted, "
    "a re-assignment is accepted iff the constructor would accept the resulting arguments and a refused one changes "
    "nothing, plus the derived-quantity relations. "
    "non-trivial = an operation raised or changed an observable; distinct = distinct request line"
)
TRUSTED = [
    "the ast walk of orbitals.py/basis.py listing field order, validators and the accessors that refuse generalized orbitals",
]
ASSUMPTIONS = [
    "attrs.define semantics (validators in __init__ in field order on the new object, on assignment on the old one; "
    "attrs.evolve = __init__ of a copy with one changed argument; a validator list runs in order)",
    "numpy 1-D broadcasting, slice assignment, astype(int), clip as transcribed in Model/Orbitals.lean",
    "coeffs is modelled by one scalar per column (the harness uses 2-row matrices and checks the rows move together)",
    "doubles are exact on the dyadic alphabet; theorems are over Q",
    "orbital counts are None or non-negative ints (Nat in the model); illegal kind names are one class",
]
TIME_LIMIT = {"quick": 900, "thorough": 3600}

ORB = engine.REPO / "iodata" / "orbitals.py"
BAS = engine.REPO / "iodata" / "basis.py"

# --------------------------------------------------------------------------------------
# T1


def _class(path, name):
    tree = ast.parse(path.read_text())
    return next(n for n in tree.body if isinstance(n, ast.ClassDef) and n.name == name)


def _validator_desc(node):
    """short canonical description of a validator expression"""
    if node is None:
        return "none"
    return ast.unparse(node).replace("attrs.validators.", "").replace(" ", "")


def extract():
    out = {"mo_fields": [], "refusing": [], "shell_fields": []}
    cls = _class(ORB, "MolecularOrbitals")
    for node in cls.body:
        if isinstance(node, ast.AnnAssign) and isinstance(node.target, ast.Name):
            kws = {k.arg: k.value for k in node.value.keywords} if isinstance(node.value, ast.Call) else {}
            out["mo_fields"].append((node.target.id, _validator_desc(kws.get("validator"))))
        if isinstance(node, ast.FunctionDef):
            # accessors whose first statement is `if self.kind == "generalized": raise NotImplementedError`
            body = [b for b in node.body if not (isinstance(b, ast.Expr) and isinstance(b.value, ast.Constant))]
            if body and isinstance(body[0], ast.If):
                t = body[0]
                if (ast.unparse(t.test) == "self.kind == 'generalized'" and isinstance(t.body[0], ast.Raise)
                        and ast.unparse(t.body[0].exc) == "NotImplementedError"):
                    is_setter = any(isinstance(d, ast.Attribute) and d.attr == "setter" for d in node.decorator_list)
                    out["refusing"].append(node.name + ("=" if is_setter else ""))
    cls = _class(BAS, "Shell")
    for node in cls.body:
        if isinstance(node, ast.AnnAssign) and isinstance(node.target, ast.Name):
            kws = {k.arg: k.value for k in node.value.keywords} if isinstance(node.value, ast.Call) else {}
            out["shell_fields"].append((node.target.id, _validator_desc(kws.get("validator"))))
    return out


def translate(ctx):
    ex = extract()
    pair = lambda p: f"({lean_str(p[0])}, {lean_str(p[1])})"  # noqa: E731
    body = [
        "namespace Iodata.Gen.OrbitalFields",
        f"def moFields : List (String × String) := {lean_list(ex['mo_fields'], pair)}",
        f"def refusing : List String := {lean_list(sorted(ex['refusing']), lean_str)}",
        f"def shellFields : List (String × String) := {lean_list(ex['shell_fields'], pair)}",
        "end Iodata.Gen.OrbitalFields",
        "",
    ]
    ctx.gen_write("OrbitalFields", "\n".join(body))


# --------------------------------------------------------------------------------------
# real-code side of the `mo` stream

KIND = {"r": "restricted", "u": "unrestricted", "g": "generalized", "x": "spinor"}
KINDCODE = {v: k for k, v in KIND.items()}
ARRS = ("occs", "coeffs", "energies", "irreps", "aminusb")
REASSIGN = ("kind", "norba", "norbb")
PYNAME = {"aminusb": "occs_aminusb"}


def fr(x):
    return Fr(float(x))


def s_num(x):
    return "-" if x is None else str(fr(x))


def s_arr(a):
    if a is None:
        return "-"
    return "[" + ",".join(str(fr(x)) for x in a) + "]"


def exc_class(exc):
    n = type(exc).__name__
    return n if n in ("TypeError", "ValueError") else "Other:" + n


def enc_arr(v):
    return "-" if v is None else "[" + ",".join(str(x) for x in v) + "]"


def enc_op(op):
    if op[0] == "new":
        a = op[1]
        parts = [f"kind={a['kind']}", f"norba={'-' if a['norba'] is None else a['norba']}",
                 f"norbb={'-' if a['norbb'] is None else a['norbb']}"]
        parts += [f"{k}={enc_arr(a[k])}" for k in ARRS if a.get(k) is not None]
        return "new:" + ";".join(parts)
    if op[1] in REASSIGN:
        return f"set:{op[1]}={'-' if op[2] is None else op[2]}"
    return f"set:{op[1]}={enc_arr(op[2])}"


def to_np(name, v):
    if name == "kind":
        return KIND[v]
    if v is None or name in REASSIGN:
        return v
    a = np.array([float(x) for x in v], dtype=float)
    if name == "coeffs":
        return np.array([a, 2 * a])
    return a


def _get(f):
    try:
        return f(), None
    except Exception as exc:
        return None, "!" + exc_class(exc)


def _s(f, show):
    v, e = _get(f)
    return e if e else show(v)


def _cols(c):
    if c is None:
        return "-"
    if c.ndim != 2 or c.shape[0] != 2 or not np.array_equal(c[1], 2 * c[0]):
        return "rows-differ"
    return s_arr(c[0])


def observe(m):
    try:
        return _observe(m)
    except Exception as exc:  # only objects the class should never reach (e.g. kind contradicting the counts)
        return "observing-raised:" + exc_class(exc)


def _observe(m):
    return (
        f"kind={KINDCODE.get(m.kind, '?')};na={'-' if m.norba is None else int(m.norba)};"
        f"nb={'-' if m.norbb is None else int(m.norbb)};"
        f"occs={s_arr(m.occs)};ab={s_arr(m.occs_aminusb)};oa={_s(lambda: m.occsa, s_arr)};ob={_s(lambda: m.occsb, s_arr)};"
        f"ne={s_num(m.nelec)};sp={_s(lambda: m.spinpol, s_num)};norb={'-' if m.norb is None else int(m.norb)};"
        f"ca={_s(lambda: m.coeffsa, _cols)};cb={_s(lambda: m.coeffsb, _cols)};"
        f"ea={_s(lambda: m.energiesa, s_arr)};eb={_s(lambda: m.energiesb, s_arr)};"
        f"ia={_s(lambda: m.irrepsa, s_arr)};ib={_s(lambda: m.irrepsb, s_arr)}"
    )


def make_mo(a):
    from iodata.orbitals import MolecularOrbitals

    kw = {PYNAME.get(k, k): to_np(k, a[k]) for k in ARRS if a.get(k) is not None}
    return MolecularOrbitals(KIND[a["kind"]], a["norba"], a["norbb"], **kw)


def run_seq(ops):
    cur = None
    out = []
    for op in ops:
        if op[0] == "new":
            try:
                cur = make_mo(op[1])
                out.append("ok;" + observe(cur))
            except Exception as exc:
                out.append("err:" + exc_class(exc) + ";" + ("noobj" if cur is None else observe(cur)))
            continue
        if cur is None:
            out.append("noobj")
            continue
        try:
            setattr(cur, PYNAME.get(op[1], op[1]), to_np(op[1], op[2]))
            res = "ok"
        except Exception as exc:
            res = "err:" + exc_class(exc)
        out.append(res + ";" + observe(cur))
    return out


def _work(ops):
    parts = run_seq(ops)
    nontriv = any(p.startswith("err") for p in parts)
    obs = [p.split(";", 1)[1] for p in parts if ";" in p]
    nontriv = nontriv or any(a != b for a, b in zip(obs, obs[1:]))
    nerr = sum(p.startswith("err") for p in parts)
    kind = ops[0][1]["kind"] if ops and ops[0][0] == "new" else "?"
    first = "rejected" if parts and parts[0].startswith("err") else "built"
    nre = sum(op[0] == "set" and op[1] in REASSIGN for op in ops)
    return "|".join(parts), nontriv, f"kind={kind}/{first}/errs={min(nerr, 3)}/reassign={min(nre, 2)}"


H, Q = Fr(1, 2), Fr(1, 4)


def mk(kind, na, nb, **kw):
    d = {"kind": kind, "norba": na, "norbb": nb}
    d.update(kw)
    return ("new", d)


def constructs():
    F = Fr
    return [
        mk("r", 2, 2), mk("r", 2, 2, occs=(F(2), F(0))), mk("r", 2, 2, occs=(F(2), F(1))),
        mk("r", 2, 2, occs=(F(3, 2), H)), mk("r", 2, 2, occs=(F(1), F(1)), aminusb=(F(1), F(-1))),
        mk("r", 2, 2, occs=(F(2), F(1)), aminusb=(F(0), F(1))), mk("r", 2, 2, occs=(F(1), F(1)), aminusb=(F(-1), H)),
        mk("r", 2, 2, occs=(F(2), F(1), F(0))), mk("r", 2, 2, occs=(F(2), F(1)), aminusb=(F(1),)),
        mk("r", 2, 2, aminusb=(F(1), F(0))),
        mk("r", 0, 0, occs=()), mk("r", 1, 1, occs=(F(1),)), mk("r", 1, 1, occs=(F(-1),)),
        mk("r", 3, 3, occs=(F(2), F(1), F(0)), coeffs=(F(1), F(2), F(3)), energies=(F(-1), -H, H), irreps=(F(1), F(2), F(1))),
        mk("r", 2, 2, coeffs=(F(1), F(2), F(3))), mk("r", 1, 2, occs=(F(1),)), mk("r", None, None), mk("r", 2, None),
        mk("u", 2, 1), mk("u", 2, 1, occs=(F(1), F(1), F(1))),
        mk("u", 2, 1, occs=(F(1), H, Q), coeffs=(F(1), F(2), F(3)), energies=(F(-1), -H, H), irreps=(F(1), F(2), F(1))),
        mk("u", 2, 1, occs=(F(1), F(1), F(1)), aminusb=(F(1), F(1), F(1))), mk("u", 2, 1, occs=(F(1), F(1))),
        mk("u", 1, 1, occs=(F(1), F(0))), mk("u", 0, 2, occs=(F(1), F(1))), mk("u", 2, 0, occs=(F(1), H)),
        mk("u", None, 1), mk("u", 1, 1, energies=(F(1),)),
        mk("g", None, None), mk("g", None, None, occs=(F(1), F(1), F(0))),
        mk("g", None, None, occs=(F(1), F(0)), coeffs=(F(1), F(2))), mk("g", None, None, occs=(F(1), F(0)), coeffs=(F(1), F(2), F(3))),
        mk("g", 2, None), mk("g", None, None, occs=(F(1), F(0)), aminusb=(F(1), F(0))), mk("g", None, None, energies=(F(1), F(2))),
        mk("x", 1, 1),
    ]


def assignments():
    F = Fr
    return [
        ("set", "occs", None), ("set", "occs", (F(2), F(0))), ("set", "occs", (F(1), F(1), F(1))),
        ("set", "occs", (F(3, 2), H)), ("set", "occs", (F(2), F(1))), ("set", "occs", ()),
        ("set", "aminusb", None), ("set", "aminusb", (F(1), F(-1))), ("set", "aminusb", (F(0), F(1))), ("set", "aminusb", (F(1),)),
        ("set", "occsa", (F(1), F(0))), ("set", "occsa", (F(1),)), ("set", "occsa", (H, Q)),
        ("set", "occsa", (F(1), F(1), F(0))), ("set", "occsa", ()),
        ("set", "occsb", (F(1), F(0))), ("set", "occsb", (H,)), ("set", "occsb", (F(0), F(1), F(1))),
        ("set", "coeffs", None), ("set", "coeffs", (F(1), F(2))), ("set", "coeffs", (F(1), F(2), F(3))),
        ("set", "energies", (F(-1), -H)), ("set", "energies", (F(1), F(2), F(3))),
        ("set", "irreps", (F(1), F(2))),
        *reassignments(),
    ]


def reassignments():
    return [
        ("set", "kind", "r"), ("set", "kind", "u"), ("set", "kind", "g"), ("set", "kind", "x"),
        ("set", "norba", None), ("set", "norba", 0), ("set", "norba", 1), ("set", "norba", 2), ("set", "norba", 3),
        ("set", "norbb", None), ("set", "norbb", 0), ("set", "norbb", 1), ("set", "norbb", 2),
    ]


ELEMS = [Fr(0), Fr(1), Fr(2), Fr(-1), H, Fr(3, 2), Q, Fr(5, 2), Fr(3, 4)]


def rand_arr(rng, n=None):
    if n is None:
        n = rng.choice([0, 1, 1, 2, 2, 2, 3, 3, 4])
    return tuple(rng.choice(ELEMS) for _ in range(n))


def rand_construct(rng):
    kind = rng.choice(["r", "r", "r", "u", "u", "g", "x"])
    if kind == "r":
        na = rng.randint(0, 3)
        nb = na if rng.random() < 0.9 else rng.randint(0, 3)
        n = na
    elif kind == "g":
        na = nb = None if rng.random() < 0.9 else 1
        n = rng.randint(0, 3)
    else:
        na, nb = rng.randint(0, 2), rng.randint(0, 2)
        n = na + nb
    if rng.random() < 0.05:
        na = None
    d = {}
    for k in ARRS:
        p = {"occs": 0.75, "aminusb": 0.3 if kind == "r" else 0.06}.get(k, 0.3)
        if rng.random() < p:
            d[k] = rand_arr(rng, n if rng.random() < 0.9 else None)
    return mk(kind, na, nb, **d)


def _norb_of(kind, na, nb):
    if kind == "r":
        return na
    if kind in ("u", "x"):
        return None if na is None or nb is None else na + nb
    return None


def rand_seq(rng, maxlen):
    ops = [rand_construct(rng)]
    chain = rng.random() < 0.35
    if chain:
        # start without arrays (the objects on which changed counts / kinds can be accepted), re-assign often and
        # follow the counts the re-assignments ask for
        ops = [mk(*(ops[0][1][k] for k in REASSIGN))]
    a = ops[0][1]
    # `st`: the kind/counts the object would have if every re-assignment so far were accepted (a bias for
    # the lengths only; what really happens is decided by the code under test resp. the model)
    st = {"kind": a["kind"], "norba": a["norba"], "norbb": a["norbb"]}
    n0 = _norb_of(a["kind"], a["norba"], a["norbb"])
    for _ in range(rng.randint(0, maxlen - 1)):
        r = rng.random()
        if r < 0.08:
            ops.append(rand_construct(rng))
            continue
        if r < (0.5 if chain else 0.25):
            name = rng.choice(REASSIGN)
            if name == "kind":
                v = rng.choice(["r", "u", "u", "r", "g", "x"])
            else:
                v = rng.choice([st["norba"], st["norbb"], rng.randint(0, 3), rng.randint(0, 3), None])
            ops.append(("set", name, v))
            if chain or rng.random() < 0.7:
                st[name] = v
            continue
        n = _norb_of(st["kind"], st["norba"], st["norbb"])
        if n is None or rng.random() < (0.1 if chain else 0.25):
            n = n0
        name = rng.choice(["occs", "occs", "aminusb", "occsa", "occsa", "occsb", "occsb", "coeffs", "energies", "irreps"])
        if name in ("occsa", "occsb"):
            k = st["norba"] if name == "occsa" or st["kind"] == "r" else st["norbb"]
            v = rand_arr(rng, k if (k is not None and rng.random() < 0.7) else None)
        elif rng.random() < 0.2:
            v = None
        else:
            v = rand_arr(rng, n if (n is not None and rng.random() < 0.8) else None)
        ops.append(("set", name, v))
    return ops


# --------------------------------------------------------------------------------------
# shells


def shell_enc(op):
    if op[0] == "new":
        l, k, nexp, cs = op[1]
        return f"new:l={enc_arr(l)};k={enc_arr(k)};nexp={nexp};cs={enc_arr(cs)}"
    key = {"angmoms": "l", "kinds": "k", "exponents": "nexp", "coeffs": "cs"}[op[1]]
    return f"set:{key}={op[2] if key == 'nexp' else enc_arr(op[2])}"


def shell_obs(s):
    nb, e = _get(lambda: s.nbasis)
    return (f"nbasis={e if e else int(nb)};ncon={s.ncon};nexp={s.nexp};l={enc_arr([int(x) for x in s.angmoms])};"
            f"k={enc_arr([str(x) for x in s.kinds])};cs={enc_arr(list(s.coeffs.shape))}")


def shell_value(name, v):
    if name == "angmoms":
        return np.array(v, dtype=int)
    if name == "kinds":
        return np.array(list(v), dtype=str) if len(v) else np.array([], dtype=str)
    if name == "exponents":
        return np.linspace(1.0, 2.0, v) if v else np.zeros(0)
    return np.ones(tuple(v))


def shell_run(ops):
    from iodata.basis import Shell

    cur = None
    out = []
    for op in ops:
        if op[0] == "new":
            l, k, nexp, cs = op[1]
            try:
                cur = Shell(0, shell_value("angmoms", l), shell_value("kinds", k), shell_value("exponents", nexp),
                            shell_value("coeffs", cs))
                out.append("ok;" + shell_obs(cur))
            except Exception as exc:
                out.append("err:" + exc_class(exc) + ";" + ("noobj" if cur is None else shell_obs(cur)))
            continue
        if cur is None:
            out.append("noobj")
            continue
        try:
            setattr(cur, op[1], shell_value(op[1], op[2]))
            res = "ok"
        except Exception as exc:
            res = "err:" + exc_class(exc)
        out.append(res + ";" + shell_obs(cur))
    return out


def rand_shell_new(rng):
    ncon = rng.randint(0, 4)
    nexp = rng.randint(0, 3)
    r = rng.random()
    ls = [rng.randint(0, 9) for _ in range(ncon)]
    ks = []
    for l in ls:
        q = rng.random()
        ks.append("c" if q < 0.45 else "p" if q < 0.9 else rng.choice(["x", "cc", "P"]))
    cs = [nexp, ncon]
    if r < 0.1:
        cs = [nexp]
    elif r < 0.15:
        cs = [nexp, ncon, 2]
    elif r < 0.25:
        cs = [rng.randint(0, 3), rng.randint(0, 4)]
    elif r < 0.32:
        ls = ls[:-1] if ls else [0]
    elif r < 0.39:
        ks = ks + ["c"]
    elif r < 0.45:
        nexp = nexp + 1
    return ("new", (tuple(ls), tuple(ks), nexp, tuple(cs)))


def rand_shell_seq(rng, maxlen):
    ops = [rand_shell_new(rng)]
    for _ in range(rng.randint(0, maxlen - 1)):
        r = rng.random()
        new = rand_shell_new(rng)[1]
        base = ops[0][1]
        if r < 0.1:
            ops.append(("new", new))
        elif r < 0.4:
            n = len(base[0]) if rng.random() < 0.7 else len(new[0])
            ops.append(("set", "angmoms", tuple(rng.randint(0, 9) for _ in range(n))))
        elif r < 0.7:
            n = len(base[1]) if rng.random() < 0.7 else len(new[1])
            ops.append(("set", "kinds", tuple(rng.choice(["c", "p", "p", "x"]) for _ in range(n))))
        elif r < 0.85:
            ops.append(("set", "exponents", base[2] if rng.random() < 0.5 else new[2]))
        else:
            ops.append(("set", "coeffs", base[3] if rng.random() < 0.5 else new[3]))
    return ops


def _shell_work(ops):
    parts = shell_run(ops)
    nerr = sum(p.startswith("err") for p in parts)
    nb_err = any("nbasis=!" in p for p in parts)
    return "|".join(parts), True, f"errs={min(nerr, 3)}/nbasis-raises={int(nb_err)}"


# --------------------------------------------------------------------------------------
# T2


def _corr_batch(ctx, pool, stream, prefix, enc, work, seqs):
    CH = 50000
    it = iter(seqs)
    while True:
        chunk = [list(s) for s in itertools.islice(it, CH)]
        if not chunk:
            break
        reqs = [prefix + " " + " ".join(enc(op) for op in ops) for ops in chunk]
        res = pool.map(work, chunk, chunksize=400)
        ctx.corr(stream, reqs, [r[0] for r in res], [r[1] for r in res], [r[2] for r in res])


def correspond(ctx):
    rng = ctx.rng
    C, A = constructs(), assignments()
    depth = 3 if ctx.thorough else 2
    with mp.get_context("fork").Pool(min(14, mp.cpu_count())) as pool:
        _corr_batch(ctx, pool, "mo-exhaustive", "mo", enc_op, _work,
                    ([c, *t] for c in C for t in itertools.product(A, repeat=depth)))
        _corr_batch(ctx, pool, "mo-reconstruct", "mo", enc_op, _work,
                    ([c1, a, c2] for c1 in C for a in A[:12] for c2 in C))
        R = reassignments()
        _corr_batch(ctx, pool, "mo-reassign", "mo", enc_op, _work,
                    ([c, r1, a, r2] for c in C for r1 in R for a in A for r2 in R))
        _corr_batch(ctx, pool, "mo-random", "mo", enc_op, _work,
                    [rand_seq(rng, ctx.n(8, 16)) for _ in range(ctx.n(25000, 150000))])
        _corr_batch(ctx, pool, "shl-random", "shl", shell_enc, _shell_work,
                    [rand_shell_seq(rng, ctx.n(5, 8)) for _ in range(ctx.n(12000, 80000))])
    ctx.extra_cov["exhaustive_depth"] = {"constructs": len(C), "assignment_alphabet": len(A),
                                         "of_which_reassignments": len(R), "assignments_per_sequence": depth}


# --------------------------------------------------------------------------------------
# S: the property on the real code only

EPS = 2.0 ** -52


def _close(a, b, scale):
    return abs(float(a) - float(b)) <= 8 * EPS * (scale + 1.0)


def _valid_args(a):
    """independent statement of what the constructor must accept"""
    kind = a["kind"]
    if kind == "x":
        return False
    na, nb = a["norba"], a["norbb"]
    if kind == "g":
        if na is not None or nb is not None:
            return False
        lens = [len(a[k]) for k in ("coeffs", "occs", "energies", "irreps") if a.get(k) is not None]
        n = lens[0] if lens else None
    else:
        if na is None or nb is None:
            return False
        if kind == "r" and na != nb:
            return False
        n = na if kind == "r" else na + nb
    for k in ARRS:
        if a.get(k) is not None and n is not None and len(a[k]) != n:
            return False
    if a.get("aminusb") is not None and kind != "r":
        return False
    return True


def _state_args(m):
    """the constructor arguments that would rebuild the object `m` (arrays by length only)"""
    a = {"kind": KINDCODE.get(m.kind, "x"), "norba": m.norba, "norbb": m.norbb}
    for k in ARRS:
        arr = getattr(m, PYNAME.get(k, k))
        if arr is not None:
            a[k] = (0,) * (arr.shape[1] if k == "coeffs" else len(arr))
    return a


def check_mo_history(ops):
    bad = []
    cur = None
    for i, op in enumerate(ops):
        if op[0] == "new":
            want = _valid_args(op[1])
            try:
                m = make_mo(op[1])
            except (TypeError, ValueError):
                if want:
                    bad.append(("construct-rejects-valid", f"step {i}: consistent arguments rejected"))
                continue
            except Exception as exc:
                bad.append(("construct-wrong-exception", f"step {i}: {type(exc).__name__}"))
                continue
            if not want:
                bad.append(("construct-accepts-invalid:" + op[1]["kind"], f"step {i}: inconsistent arguments accepted"))
                continue
            cur, kind = m, op[1]["kind"]
        elif cur is None:
            continue
        elif op[1] in REASSIGN:
            # re-assignment of kind / norba / norbb: accepted exactly when the constructor would accept the
            # resulting arguments (independent oracle `_valid_args`), refused ones change nothing
            name, v = op[1], op[2]
            args = _state_args(cur)
            before = (cur.kind, cur.norba, cur.norbb)
            args[name] = v
            want = _valid_args(args)
            try:
                setattr(cur, name, to_np(name, v))
                ok = True
            except (TypeError, ValueError):
                ok = False
            except Exception as exc:
                ok = False
                bad.append(("set-wrong-exception:" + name, f"step {i}: {type(exc).__name__}"))
            if ok and not want:
                bad.append((f"reassign-accepts-inconsistent:{name}",
                            f"step {i}: {name} = {v!r} accepted on {before} with array lengths "
                            f"{ {k: len(x) for k, x in args.items() if k in ARRS} }"))
            if not ok and want:
                bad.append((f"reassign-rejects-consistent:{name}", f"step {i}: {name} = {v!r} refused on {before}"))
            if not ok and (cur.kind, cur.norba, cur.norbb) != before:
                bad.append((f"refused-reassign-changes-object:{name}", f"step {i}"))
        else:
            name, v = op[1], op[2]
            before_a, _ = _get(lambda: None if cur.occsa is None else np.array(cur.occsa))
            before_b, _ = _get(lambda: None if cur.occsb is None else np.array(cur.occsb))
            had_occs = cur.occs is not None
            try:
                setattr(cur, PYNAME.get(name, name), to_np(name, v))
                ok = True
            except NotImplementedError:
                ok = False
                if cur.kind != "generalized":
                    bad.append(("set-notimplemented-nongeneralized", f"step {i}"))
            except (TypeError, ValueError):
                ok = False
            except Exception as exc:
                ok = False
                bad.append(("set-wrong-exception:" + name, f"step {i}: {type(exc).__name__}"))
            if cur.kind == "generalized" and name in ("occsa", "occsb") and ok:
                bad.append(("generalized-accepts-" + name, f"step {i}"))
            if ok and name in ("occsa", "occsb") and cur.kind != "generalized":
                want_len = cur.norba if (name == "occsa" or cur.kind == "restricted") else cur.norbb
                if len(v) == want_len:
                    got = cur.occsa if name == "occsa" else cur.occsb
                    other_before = before_b if name == "occsa" else before_a
                    other = cur.occsb if name == "occsa" else cur.occsa
                    vv = np.array([float(x) for x in v])
                    sc = float(np.abs(vv).sum() + (np.abs(other).sum() if other is not None else 0))
                    if got is None or got.shape != vv.shape or not all(_close(x, y, sc) for x, y in zip(got, vv)):
                        bad.append((f"{name}-does-not-read-back:{cur.kind}", f"step {i}: assigned {list(map(float, v))}, reads {got}"))
                    if had_occs and (other is None or other_before is None or other.shape != other_before.shape
                                     or not all(_close(x, y, sc) for x, y in zip(other, other_before))):
                        bad.append((f"{name}-changes-other-spin:{cur.kind}", f"step {i}: other spin {other_before} -> {other}"))
        # ---- state predicates
        m = cur
        if m is None:
            continue
        counts_ok = {"restricted": m.norba is not None and m.norba == m.norbb,
                     "unrestricted": m.norba is not None and m.norbb is not None,
                     "generalized": m.norba is None and m.norbb is None}.get(m.kind, False)
        if not counts_ok:
            bad.append((f"kind-contradicts-counts:{m.kind}", f"step {i}: kind {m.kind}, norba {m.norba}, norbb {m.norbb}"))
            continue
        if m.occs_aminusb is not None and m.kind != "restricted":
            bad.append((f"aminusb-on-nonrestricted:{m.kind}", f"step {i}"))
        n = m.norb
        for nm in ("occs", "energies", "irreps", "occs_aminusb"):
            arr = getattr(m, nm)
            if arr is not None and n is not None and len(arr) != n:
                bad.append(("length-disagrees:" + nm, f"step {i}: len {len(arr)} vs norb {n}"))
        if m.coeffs is not None and n is not None and m.coeffs.shape[1] != n:
            bad.append(("length-disagrees:coeffs", f"step {i}"))
        if m.kind == "generalized":
            for acc in ("occsa", "occsb", "spinpol", "coeffsa", "coeffsb", "energiesa", "energiesb", "irrepsa", "irrepsb"):
                try:
                    getattr(m, acc)
                    bad.append(("generalized-exposes:" + acc, f"step {i}"))
                except NotImplementedError:
                    pass
            if (m.nelec is None) != (m.occs is None) or (m.occs is not None and m.nelec != m.occs.sum()):
                bad.append(("generalized-nelec", f"step {i}"))
            continue
        if m.occs is None:
            if m.occsa is not None or m.occsb is not None or m.nelec is not None or m.spinpol is not None:
                bad.append(("none-occs-derived-not-none", f"step {i}"))
        else:
            oa, ob = m.occsa, m.occsb
            sc = float(np.abs(m.occs).sum())
            if m.kind == "restricted":
                good = oa.shape == m.occs.shape == ob.shape and all(_close(x + y, z, sc) for x, y, z in zip(oa, ob, m.occs))
            else:
                good = np.array_equal(np.concatenate([oa, ob]), m.occs) and len(oa) == m.norba and len(ob) == m.norbb
            if not good:
                bad.append(("occsa-plus-occsb:" + m.kind, f"step {i}: {oa} {ob} vs {m.occs}"))
            if not _close(m.nelec, oa.sum() + ob.sum(), sc) or not _close(m.nelec, m.occs.sum(), sc):
                bad.append(("nelec-not-total:" + m.kind, f"step {i}"))
            if not _close(m.spinpol, abs(oa.sum() - ob.sum()), sc):
                bad.append(("spinpol-not-abs-difference:" + m.kind, f"step {i}: spinpol {m.spinpol}, alpha {oa.sum()}, beta {ob.sum()}"))
        for nm in ("coeffs", "energies", "irreps"):
            full = getattr(m, nm)
            va, vb = getattr(m, nm + "a"), getattr(m, nm + "b")
            if full is None:
                good = va is None and vb is None
            elif m.kind == "restricted":
                good = va is full and vb is full
            elif nm == "coeffs":
                good = np.array_equal(va, full[:, :m.norba]) and np.array_equal(vb, full[:, m.norba:]) \
                    and va.shape[1] == m.norba and vb.shape[1] == m.norbb
            else:
                good = np.array_equal(va, full[:m.norba]) and np.array_equal(vb, full[m.norba:]) \
                    and len(va) == m.norba and len(vb) == m.norbb
            if not good:
                bad.append((f"slice:{nm}:{m.kind}", f"step {i}"))
    return bad


def check_shell(spec):
    from iodata.basis import Shell

    l, k, nexp, cs = spec
    want = list(cs) == [nexp, len(k)] and len(l) == len(k)
    try:
        s = Shell(0, shell_value("angmoms", l), shell_value("kinds", k), shell_value("exponents", nexp),
                  shell_value("coeffs", cs))
    except TypeError:
        return [("shell-rejects-valid", "consistent shell rejected")] if want else []
    except Exception as exc:
        return [("shell-wrong-exception", type(exc).__name__)]
    if not want:
        return [("shell-accepts-invalid", "inconsistent shapes accepted")]
    legal = all(kk == "c" or (kk == "p" and ll >= 2) for ll, kk in zip(l, k))
    try:
        nb = s.nbasis
    except TypeError:
        return [("nbasis-rejects-legal", "TypeError for legal kinds")] if legal else []
    except Exception as exc:
        return [("nbasis-wrong-exception", type(exc).__name__)]
    if not legal:
        return [("nbasis-accepts-illegal", f"nbasis {nb} for kinds {k} angmoms {l}")]
    exp = sum((ll + 1) * (ll + 2) // 2 if kk == "c" else 2 * ll + 1 for ll, kk in zip(l, k))
    return [] if nb == exp else [("nbasis-wrong", f"{nb} != {exp}")]


NONDYADIC = [0.1, 0.3, 1.7, 0.9, 1.0 / 3.0, 0.9999999, 1.0000001, 1.9999999, 2.0000001, 1e-7, 0.99999]


def _search_work(item):
    kind, payload = item
    try:
        return check_mo_history(payload) if kind == "mo" else check_shell(payload)
    except Exception as exc:
        return [("predicate-raised:" + type(exc).__name__, f"evaluating the predicates raised {type(exc).__name__}: {exc}")]


def _perturb(rng, ops):
    """replace some dyadic entries by non-dyadic doubles (tolerant comparisons only)"""
    out = []
    for op in ops:
        if op[0] == "set" and op[1] not in REASSIGN and op[2] is not None and rng.random() < 0.3:
            out.append(("set", op[1], tuple(rng.choice(NONDYADIC) if rng.random() < 0.5 else x for x in op[2])))
        else:
            out.append(op)
    return out


def _js(ops):
    def j(v):
        return None if v is None else [float(x) for x in v]

    out = []
    for op in ops:
        if op[0] == "new":
            out.append(["new", {k: (j(v) if k in ARRS else v) for k, v in op[1].items()}])
        elif op[1] in REASSIGN:
            out.append(["set", op[1], op[2]])
        else:
            out.append(["set", op[1], j(op[2])])
    return out


def _unjs(ops):
    out = []
    for op in ops:
        if op[0] == "new":
            out.append(("new", {k: (None if v is None else tuple(v)) if k in ARRS else v for k, v in op[1].items()}))
        elif op[1] in REASSIGN:
            out.append(("set", op[1], op[2]))
        else:
            out.append(("set", op[1], None if op[2] is None else tuple(op[2])))
    return out


def search(ctx):
    rng = ctx.rng
    mult = 4 if ctx.escalated else 1
    # shortest histories first, so that the witness reported for a signature is a short one
    C, A, R = constructs(), assignments(), reassignments()
    items = [("mo", [c, r]) for c in C for r in R]
    if ctx.escalated or ctx.thorough:
        items += [("mo", [c, a1, a2]) for c in C for a1 in A for a2 in A]
    items += [("mo", _perturb(rng, rand_seq(rng, ctx.n(8, 16)))) for _ in range(ctx.n(15000, 100000) * mult)]
    items += [("shell", rand_shell_new(rng)[1]) for _ in range(ctx.n(4000, 60000) * mult)]
    with mp.get_context("fork").Pool(min(14, mp.cpu_count())) as pool:
        results = pool.map(_search_work, items, chunksize=200)
    for (kind, payload), bad in zip(items, results):
        key = _js(payload) if kind == "mo" else list(map(list, payload[:2])) + [payload[2], list(payload[3])]
        ctx.count("mo-history" if kind == "mo" else "shell", key, "ok" if not bad else "+".join(sorted({b[0] for b in bad})),
                  nontrivial=True, sample=key if kind == "shell" else key[:3])
        seen = set()
        for sig, what in bad:
            if sig not in seen:
                seen.add(sig)
                ctx.fail(sig, what, {"kind": kind, "case": key})


def replay(ctx, obj):
    inp = obj["input"]
    if inp["kind"] == "mo":
        bad = _search_work(("mo", _unjs(inp["case"])))
    else:
        l, k, nexp, cs = inp["case"]
        bad = _search_work(("shell", (tuple(l), tuple(k), nexp, tuple(cs))))
    sig = obj.get("signature")
    return any(b[0] == sig for b in bad) if sig else bool(bad)
