"""FCIDUMP, full file (header namelist, number text, the three groups of data lines) against ``Model/Fmt/FcidumpW.lean``."""

from __future__ import annotations

import random
from fractions import Fraction

import numpy as np

from . import _formats as F
from ._adapters import Adapter
from ._fchk import enc_sci, sci_quant

D = 16

NELEC_SPECIAL = [9.999999999999998, 2.5, 3.5, 0.5, 1.4999999999999998, 7.500000000000001, 4.0, 0.0, 1e-9, 12.499999999999998]


def rand_double(rng):
    r = rng.random()
    if r < 0.10:
        return 0.0
    if r < 0.15:
        return -0.0
    if r < 0.45:
        return rng.uniform(-3, 3)
    if r < 0.55:
        return float(rng.randint(-99, 99))
    if r < 0.60:
        return rng.choice([5e-324, -5e-324, 1.7976931348623157e308, -1.7976931348623157e308, 2.2250738585072014e-308, 1e22, 1e23, 0.1, 9.999999999999999e-5])
    return rng.uniform(-1, 1) * 10.0 ** rng.randint(-30, 30)


def eightfold(rng, n, gen):
    two = np.zeros((n, n, n, n))
    vals = {}
    for i in range(n):
        for j in range(i + 1):
            for k in range(n):
                for l in range(k + 1):
                    key = tuple(sorted([(i, j), (k, l)]))
                    if key not in vals:
                        vals[key] = gen(rng)
                    v = vals[key]
                    for a, b in ((i, j), (j, i)):
                        for c, d in ((k, l), (l, k)):
                            two[a, c, b, d] = v
                            two[c, a, d, b] = v
    return two


def enc_frac(x):
    if x is None:
        return "-"
    fr = Fraction(x)
    return f"{fr.numerator}/{fr.denominator}"


class FcidumpW(Adapter):
    """a case is the object itself in doubles; the quantised form (what the model sees) is derived exactly"""

    key = fmt = "fcidump"

    def pick_natom(self, rng, i, thorough):
        return [1, 2, 3, 4, 5, 6][i % 6] if i < 12 else rng.randint(1, 6 if not thorough else 8)

    def gen(self, rng, n, i):
        one = np.zeros((n, n))
        for a in range(n):
            for b in range(a + 1):
                one[a, b] = one[b, a] = rand_double(rng)
        two = eightfold(rng, n, rand_double)
        core = rng.choice([None, 0.0, -0.0, rand_double(rng), rng.uniform(-200, 200)])
        kind = ["none", "int", "float", "special", "half"][i % 5]
        if kind == "none":
            ne = sp = None
        elif kind == "int":
            ne, sp = rng.randint(0, 2 * n), rng.randint(0, n)
        elif kind == "float":
            ne, sp = float(rng.randint(0, 2 * n)), float(rng.randint(0, n))
        elif kind == "special":
            ne, sp = rng.choice(NELEC_SPECIAL), rng.choice(NELEC_SPECIAL)
        else:
            ne, sp = rng.randint(0, 40) + 0.5, rng.randint(0, 9) + rng.choice([0.5, 0.49999999999999994, 0.5000000000000001])
        q = {"n": n, "one": one, "two": two, "core": core, "nelec": ne, "spinpol": sp}
        nz = int(np.count_nonzero(two))
        cls = f"norb={n}/nelec={kind}/core={'none' if core is None else 'zero' if core == 0 else 'value'}/two={'zeros' if nz == 0 else 'dense' if nz == n**4 else 'sparse'}"
        return q, "-", cls

    def enc(self, q):
        return ";".join([str(q["n"]), enc_frac(q["nelec"]), enc_frac(q["spinpol"]),
                         "-" if q["core"] is None else enc_sci(sci_quant(q["core"], D)),
                         F.enc_list([sci_quant(v, D) for v in q["one"].ravel()], enc_sci, "/"),
                         F.enc_list([sci_quant(v, D) for v in q["two"].ravel()], enc_sci, "/")])

    def build(self, q, opts="-"):
        from iodata import IOData

        kw = {"one_ints": {"core_mo": q["one"]}, "two_ints": {"two_mo": q["two"]}}
        if q["core"] is not None:
            kw["core_energy"] = q["core"]
        if q["nelec"] is not None:
            kw["nelec"] = q["nelec"]
            kw["spinpol"] = q["spinpol"]
        return IOData(**kw)

    def quant(self, d, opts="-"):
        n = d.one_ints["core_mo"].shape[0]
        if not (isinstance(d.nelec, int | np.integer) and isinstance(d.spinpol, int | np.integer)):
            raise TypeError("nelec/spinpol not loaded as integers")
        return {"n": n, "nelec": int(d.nelec), "spinpol": int(d.spinpol), "core": d.core_energy,
                "one": d.one_ints["core_mo"], "two": d.two_ints["two_mo"]}

    def enc_loaded(self, x):
        return ";".join([str(x["n"]), str(x["nelec"]), str(x["spinpol"]), enc_sci(sci_quant(x["core"], D)),
                         F.enc_list([sci_quant(v, D) for v in x["one"].ravel()], enc_sci, "/"),
                         F.enc_list([sci_quant(v, D) for v in x["two"].ravel()], enc_sci, "/")])

    def loaded_to_obj_enc(self, enc):
        n, ne, sp, core, one, two = enc.split(";")
        return ";".join([n, ne + "/1", sp + "/1", core, one, two])

    # ---- direct search -------------------------------------------------------------------
    def free_spec(self, rng, n, i):
        return {"seed": rng.getrandbits(48), "natom": n, "i": i}

    def free_class(self, s):
        return f"norb={s['natom']}/nelec={['none', 'int', 'float', 'special', 'half'][s['i'] % 5]}"

    def free_build(self, s):
        q, _, _ = self.gen(random.Random(s["seed"]), s["natom"], s["i"])
        return self.build(q)

    def compare(self, x, y):
        bad = []
        # 17 significant digits: doubles are reproduced exactly (-0.0 elements come back as 0.0: array_equal ignores the sign)
        if not np.array_equal(x.one_ints["core_mo"], y.one_ints["core_mo"]):
            bad.append(("one_ints", "core_mo differs"))
        if not np.array_equal(x.two_ints["two_mo"], y.two_ints["two_mo"]):
            bad.append(("two_ints", "two_mo differs"))
        if (x.core_energy or 0.0) != y.core_energy:
            bad.append(("core_energy", f"{x.core_energy!r} -> {y.core_energy!r}"))
        # nelec / spinpol: "to within the digits the format prints" = the nearest integer
        for a in ("nelec", "spinpol"):
            v = getattr(x, a)
            if v is not None and abs(Fraction(getattr(y, a)) - Fraction(v)) > Fraction(1, 2):
                bad.append((a, f"{v!r} -> {getattr(y, a)!r} (not the nearest integer)"))
        return bad


FCIDUMPW = FcidumpW()


def correspond(ctx):
    from . import _w

    if ctx.prop == "C15":
        _w.corr_roundtrip(ctx, FCIDUMPW, ctx.n(120, 500), generations=2)
    else:
        _w.corr_roundtrip(ctx, FCIDUMPW, ctx.n(400, 1500))


def search(ctx):
    from . import _checks as K

    mult = 3 if ctx.escalated else 1
    if ctx.prop == "C15":
        K.search_c15(ctx, _Tagged(FCIDUMPW), ctx.n(100, 500) * mult)
    else:
        K.search_c02(ctx, _Tagged(FCIDUMPW), ctx.n(300, 1200) * mult)


class _Tagged:
    """the same adapter under a stream name of its own (the first-round FCIDUMP search adapter keeps `fcidump`)"""

    def __init__(self, ad):
        self._ad = ad
        self.key = ad.key + "-w"
        self.fmt = ad.fmt

    def __getattr__(self, name):
        return getattr(self._ad, name)


REPLAY = {"fcidump-w": _Tagged(FCIDUMPW)}
