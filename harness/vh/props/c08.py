"""C08 — dump failures follow the error contract; pre-flight errors spare existing files."""

from __future__ import annotations

import builtins
import itertools
import os
import shutil
import tempfile
import warnings

import numpy as np

from .. import flowlib as fl
from ..engine import REPO
from . import _prepare as prep

MODULES = ["Iodata.Props.C08", "Iodata.Props.C08Prepare"]
RULE = (
    "flow (controlled): the REAL dump_one/dump_many/write_input run against a scripted format module, scripted data "
    "objects, a traced open() and fault injection at the k-th write; behaviour vectors = systematic single-fault "
    "sweep (every exception class at every site: select, each getattr position, prepare_dump, open, every write "
    "index, header/footer, the user's iterator end) x target {absent, pre-existing, empty} + seeded random vectors "
    "(0-4 required names, 0-4 frames). flow-real: every dump format x every subset of its required attributes set "
    "to None x rejection reasons x allow_changes x target state, callee behaviours measured by calling "
    "prepare_dump and the writer directly. non-trivial = distinct request whose outcome is not the plain success path"
    + prep.RULE
)
TRUSTED = [
    "the ast translator harness/vh/flowlib.py (api.py -> Gen/ApiFlow.lean) and the registry dump (Gen/ApiRegistry.lean)",
    "the scripted format module / traced open() of harness/vh/flowlib.py used for fault injection",
    *prep.TRUSTED,
]
ASSUMPTIONS = [
    "Python semantics of try/except matching, `with`, for-loops over iterators, generators (PEP 479) as transcribed "
    "in Model/Flow.lean; tied by the controlled correspondence stream",
    "format writers of dump_many consume the frame iterator with a plain for-loop and do not catch its exceptions "
    "(checked for the 4 real writers by the flow-real stream)",
    "closing the output file does not fail (an OSError from close/flush would escape raw)",
    "iter(iter_data) succeeds (the argument is iterable); a first next() raising anything but StopIteration escapes "
    "raw (outside the stated contract, theorem dump_many_only_these_escape lists it)",
    "the _reissue_warnings decorator is transparent for exceptions; its body is pinned by theorem reissue_wrapper_shape "
    "and the real cases are also run under the caller filter `error` (warnings as errors)",
    *prep.ASSUMPTIONS,
]
TIME_LIMIT = {"quick": 900, "thorough": 3600}

EXCS = fl.EXC_NAMES


def translate(ctx):
    fl.translate_apiflow(ctx)
    fl.translate_registry(ctx)
    prep.translate(ctx)


# ----------------------------------------------------------------------------------------------------
# controlled behaviours
# ----------------------------------------------------------------------------------------------------
def _frame(attrs, prep="-", w=(1, None)):
    return ("@" if not attrs else ",".join(attrs)) + f"/{prep}/{w[0]}:{w[1] or '-'}"


def _controlled_cases(ctx):
    rng = ctx.rng
    cases = []  # (entry, kv, class)
    fss = ["absent", "7.7", "e"]
    # --- systematic single-fault sweep ---------------------------------------------------------
    for fs in fss:
        for hp in "01":
            cases.append(("dump_one", {"hp": hp, "fs": fs, "frames": _frame(["v", "v"], w=(3, None))}, "success"))
            cases.append(("dump_one", {"hp": hp, "fs": fs, "sel": "FileFormatError", "frames": _frame(["v"])}, "select"))
            cases.append(("dump_many", {"hp": hp, "fs": fs, "frames": "@"}, "empty"))
            cases.append(("dump_many", {"hp": hp, "fs": fs, "sel": "FileFormatError", "frames": _frame(["n"])}, "select"))
            cases.append(("write_input", {"fs": fs, "sel": "FileFormatError", "frames": _frame([])}, "select"))
            for e in EXCS:
                base = {"hp": hp, "fs": fs}
                for pos in range(3):
                    at = ["v", "v", "v"]
                    at[pos] = "r:" + e
                    cases.append(("dump_one", {**base, "frames": _frame(at)}, "getattr-raises"))
                cases.append(("dump_one", {**base, "frames": _frame(["v"], prep=e)}, "prepare-raises"))
                cases.append(("dump_one", {**base, "open": e, "frames": _frame(["v"])}, "open-raises"))
                for k in range(3):
                    cases.append(("dump_one", {**base, "frames": _frame(["v"], w=(k, e))}, "write-fault"))
                    cases.append(("write_input", {"fs": fs, "frames": _frame([], w=(k, e))}, "write-fault"))
                    # dump_many: fault in header, frame i, footer
                    good = _frame(["v"], w=(2, None))
                    cases.append(("dump_many", {**base, "pre": f"{k}:{e}", "frames": good}, "header-fault"))
                    cases.append(("dump_many", {**base, "post": f"{k}:{e}", "frames": good}, "footer-fault"))
                    for i in range(3):
                        frs = [good] * 3
                        frs[i] = _frame(["v"], w=(k, e))
                        cases.append(("dump_many", {**base, "frames": ";".join(frs)}, f"write-fault-frame{i}"))
                for i in range(3):
                    frs = [_frame(["v", "v"], w=(2, None))] * 3
                    frs[i] = _frame(["v", "r:" + e])
                    cases.append(("dump_many", {**base, "frames": ";".join(frs)}, f"getattr-raises-frame{i}"))
                    frs[i] = _frame(["v", "v"], prep=e)
                    cases.append(("dump_many", {**base, "frames": ";".join(frs)}, f"prepare-raises-frame{i}"))
                cases.append(("dump_many", {**base, "end": e, "frames": _frame(["v"])}, "iterator-end"))
                cases.append(("dump_many", {**base, "end": e, "frames": "@"}, "iterator-first-next"))
                cases.append(("dump_many", {**base, "open": e, "frames": _frame(["v"])}, "open-raises"))
                cases.append(("write_input", {"fs": fs, "open": e, "frames": _frame([])}, "open-raises"))
            # every subset of 3 required attributes set to None, dump_one and each frame of dump_many
            for sub in itertools.product("vn", repeat=3):
                cases.append(("dump_one", {"hp": hp, "fs": fs, "frames": _frame(list(sub), w=(2, None))}, "missing-attr"))
                for i in range(3):
                    frs = [_frame(["v", "v", "v"], w=(2, None))] * 3
                    frs[i] = _frame(list(sub), w=(2, None))
                    cases.append(("dump_many", {"hp": hp, "fs": fs, "frames": ";".join(frs)}, f"missing-attr-frame{i}"))
    # --- seeded random vectors ---------------------------------------------------------------
    def rexc(p):
        return rng.choice(EXCS) if rng.random() < p else "-"

    def rattrs(n, p):
        return [("v" if rng.random() > p else rng.choice(["n", "n", "r:" + rng.choice(EXCS)])) for _ in range(n)]

    for _ in range(ctx.n(1500, 30000)):
        entry = rng.choice(["dump_one", "dump_many", "dump_many", "write_input"])
        na = rng.randint(0, 4)
        kv = {"hp": rng.choice("01"), "fs": rng.choice(fss)}
        if rng.random() < 0.05:
            kv["sel"] = "FileFormatError"
        if rng.random() < 0.08:
            kv["open"] = rng.choice(EXCS)
        if entry == "dump_many":
            nf = rng.randint(0, 4)
            frs = [_frame(rattrs(na, 0.08), prep=rexc(0.08), w=(rng.randint(0, 3), (rng.choice(EXCS) if rng.random() < 0.1 else None)))
                   for _ in range(nf)]
            kv["frames"] = ";".join(frs) if frs else "@"
            kv["pre"] = f"{rng.randint(0, 2)}:{rexc(0.05)}"
            kv["post"] = f"{rng.randint(0, 2)}:{rexc(0.05)}"
            kv["end"] = rexc(0.1)
        else:
            if entry == "write_input":
                na = 0
                kv.pop("hp")
            kv["frames"] = _frame(rattrs(na, 0.15), prep=rexc(0.2), w=(rng.randint(0, 4), (rng.choice(EXCS) if rng.random() < 0.3 else None)))
        cases.append((entry, kv, "random"))
    return cases


def _run_controlled_stream(ctx, stream, cases):
    work = tempfile.mkdtemp(prefix="vh-c08-")
    reqs, outs, nontriv, classes = [], [], [], []
    try:
        for i, (entry, kv, cls) in enumerate(cases):
            line, dfd, still = fl.run_controlled(entry, kv, work, inject_mode=(i % 2 == 1))
            if dfd != 0 or still != 0:
                line += f" FD-LEAK(delta={dfd},open={still})"
            reqs.append(fl.request_line(entry, kv))
            outs.append(line)
            nontriv.append(not (line.startswith("ret ") or line.startswith("ok ")))
            classes.append(f"{entry}/{cls}/{line.split(' ')[0]}")
    finally:
        shutil.rmtree(work, ignore_errors=True)
    ctx.corr(stream, reqs, outs, nontriv, classes)


# ----------------------------------------------------------------------------------------------------
# real formats
# ----------------------------------------------------------------------------------------------------

import sys

import attrs

BASE = {"cube": "cubegen_h2o_5points.cube", "fchk": "water_sto3g_hf_g03.fchk", "fcidump": "FCIDUMP.molpro.h2",
        "json_qcschema": "LiCl_STO4G_Gaussian_output.json", "mol2": "caffeine.mol2", "molden": "h2o_sto3g.wfn",
        "molekel": "h2o_sto3g.wfn", "pdb": "ch5plus.pdb", "poscar": "POSCAR.water", "sdf": "example.sdf",
        "wfn": "h2o_sto3g.wfn", "wfx": "h2o_sto3g.wfn", "xyz": "example.sdf"}
# The `required` lists as declared at the pinned revision (the reference for "declares as required").
PINNED_REQUIRED = {
    ("cube", "dump_one"): ["atcoords", "atnums", "cube"], ("fchk", "dump_one"): ["atnums", "atcorenums"],
    ("fcidump", "dump_one"): ["one_ints", "two_ints"],
    ("json_qcschema", "dump_one"): ["atnums", "atcoords", "charge", "spinpol"],
    ("mol2", "dump_one"): ["atcoords", "atnums"], ("mol2", "dump_many"): ["atcoords", "atnums", "atcharges"],
    ("molden", "dump_one"): ["atcoords", "atnums", "mo", "obasis"],
    ("molekel", "dump_one"): ["atcoords", "atnums", "mo", "obasis"],
    ("pdb", "dump_one"): ["atcoords", "atnums", "extra"], ("pdb", "dump_many"): ["atcoords", "atnums", "extra"],
    ("poscar", "dump_one"): ["atcoords", "atnums", "cellvecs"],
    ("sdf", "dump_one"): ["atcoords", "atnums"], ("sdf", "dump_many"): ["atcoords", "atnums"],
    ("wfn", "dump_one"): ["atcoords", "atnums", "mo", "obasis"],
    ("wfx", "dump_one"): ["atcoords", "atnums", "atcorenums", "mo", "obasis", "charge"],
    ("xyz", "dump_one"): ["atcoords", "atnums"], ("xyz", "dump_many"): ["atcoords", "atnums"],
}
_SPY = {"tr": None, "names": ()}
_CACHE = {}


def _spy_class():
    if "cls" in _CACHE:
        return _CACHE["cls"]
    from iodata import IOData

    class SpyIOData(IOData):
        """IOData whose attribute reads made by api._check_required are logged (nothing else changes)."""

        def __getattribute__(self, name):
            tr = _SPY["tr"]
            if tr is not None and name in _SPY["names"] and sys._getframe(1).f_code.co_name == "_check_required":
                tr.ev.append("g")
            return object.__getattribute__(self, name)

    _CACHE["cls"] = SpyIOData
    return SpyIOData


def _load_base(fmt):
    from iodata import load_one

    key = ("base", BASE[fmt])
    if key not in _CACHE:
        with warnings.catch_warnings():
            warnings.simplefilter("ignore")
            _CACHE[key] = load_one(str(REPO / "iodata" / "test" / "data" / BASE[fmt]),
                                   fmt="json_qcschema" if fmt == "json_qcschema" else None)
    return _CACHE[key]


def variant(base, none_names=(), **changes):
    """A fresh (spy) IOData with the given attributes set to None / replaced."""
    from iodata import IOData

    kw = {a.name.lstrip("_"): getattr(base, a.name) for a in attrs.fields(IOData)}
    for n in none_names:
        kw[n] = None
        if n == "charge":
            kw["nelec"] = None
            if kw.get("mo") is not None:
                # with orbitals the charge is derived from their occupations: it is undefined when they carry none
                kw["mo"] = attrs.evolve(kw["mo"], occs=None, occs_aminusb=None)
        if n == "spinpol":
            kw["mo"] = None
    kw.update(changes)
    return _spy_class()(**kw)


def rejection_variants(fmt, base):
    """(label, object, rejected(allow_changes) -> bool) for every prepare_dump rejection reason of the format."""
    from iodata.basis import MolecularBasis, Shell
    from iodata.orbitals import MolecularOrbitals

    out = []
    if fmt == "json_qcschema":
        out.append(("no-schema-name", variant(base, extra={k: v for k, v in base.extra.items() if k != "schema_name"}),
                    lambda allow: True))
        # only three schema names can be written; every other value (the unimplemented basis schema, the legacy
        # spellings the *loader* accepts, case variants, padded names) must be refused before the file is opened
        for name in ("qcschema_basis", "not_a_schema", "qc_schema_molecule", "qc_schema_input", "qc_schema_output",
                     "QCSCHEMA_MOLECULE", "qcschema_molecule ", "", "qcschema"):
            out.append((f"schema-name={name!r}", variant(base, extra={**base.extra, "schema_name": name}),
                        lambda allow: True))
        return out
    if fmt not in ("fchk", "molden", "molekel", "wfn", "wfx"):
        return out
    mo, ob = base.mo, base.obasis
    nb, norb = mo.nbasis, mo.norb
    gen = MolecularOrbitals("generalized", None, None, np.ones(norb), np.zeros((2 * nb, norb)), np.zeros(norb))
    out.append(("generalized-mo", variant(base, mo=gen), lambda allow: True))
    # orbitals without the basis they are expanded in: nothing a wavefunction format could write
    out.append(("mo-without-obasis", variant(base, obasis=None), lambda allow: True))
    if mo.kind == "restricted":
        am = attrs.evolve(mo, occs_aminusb=np.zeros(norb))
        if fmt != "fchk":
            out.append(("occs-aminusb", variant(base, mo=am), lambda allow: not allow))
    sh0 = ob.shells[0]
    g = Shell(sh0.icenter, np.array([0, 0]), ["c", "c"], sh0.exponents, np.stack([sh0.coeffs[:, 0], sh0.coeffs[:, 0]], 1))
    ob_g = MolecularBasis([g, *ob.shells[1:]], ob.conventions, ob.primitive_normalization)
    extra_rows = ob_g.nbasis - nb
    mo_g = attrs.evolve(mo, coeffs=np.vstack([mo.coeffs[:1], np.zeros((extra_rows, norb)), mo.coeffs[1:]]))
    out.append(("generalized-contraction", variant(base, obasis=ob_g, mo=mo_g), lambda allow: not allow))
    if fmt in ("wfn", "wfx"):
        p = Shell(0, np.array([2]), ["p"], np.array([1.0]), np.array([[1.0]]))
        ob_p = MolecularBasis([*ob.shells, p], ob.conventions, ob.primitive_normalization)
        mo_p = attrs.evolve(mo, coeffs=np.vstack([mo.coeffs, np.zeros((5, norb))]))
        out.append(("pure-functions", variant(base, obasis=ob_p, mo=mo_p), lambda allow: True))
    if fmt == "fchk" and mo.kind == "restricted":
        occs = mo.occs[::-1].copy()
        if not np.array_equal(occs, mo.occs):
            out.append(("non-aufbau", variant(base, mo=attrs.evolve(mo, occs=occs)), lambda allow: True))
        # each spin channel is checked separately: alpha in aufbau order but beta not (a singly occupied
        # orbital below a doubly occupied one), beta in order but alpha not (via occs_aminusb), fractional beta
        if mo.kind == "restricted" and mo.occs is not None and len(mo.occs) >= 3:
            n = len(mo.occs)
            o1 = np.zeros(n)
            o1[:2] = [1.0, 2.0]
            out.append(("non-aufbau-beta-only", variant(base, mo=attrs.evolve(mo, occs=o1, occs_aminusb=None)),
                        lambda allow: True))
            o2 = np.zeros(n)
            o2[:3] = [2.0, 1.0, 1.0]
            am = np.zeros(n)
            am[:3] = [0.0, -1.0, 1.0]   # alpha (1,0,1): hole below an occupied orbital; beta (1,1,0) fine
            out.append(("non-aufbau-alpha-only", variant(base, mo=attrs.evolve(mo, occs=o2, occs_aminusb=am)),
                        lambda allow: True))
            o3 = np.zeros(n)
            o3[:2] = [2.0, 1.0]
            am3 = np.zeros(n)
            am3[:2] = [0.0, 0.5]        # alpha (1, .75), beta (1, .25): fractional
            out.append(("fractional-spin-occupations", variant(base, mo=attrs.evolve(mo, occs=o3, occs_aminusb=am3)),
                        lambda allow: True))
    return out


class Recorder:
    """File-like object that records the chunks a writer produces."""

    name = "recorder"

    def __init__(self):
        self.chunks = []

    def write(self, s):
        self.chunks.append(s)
        return len(s)


def _enum(exc):
    n = fl.classify(exc)
    return "Other" if n.startswith("Other") else n


def measure(mod, fn, data, allow):
    """Behaviour of the callees on this object, measured by calling them directly (not through the API)."""
    with warnings.catch_warnings():
        warnings.simplefilter("ignore")
        req = list(getattr(mod, fn).required)
        at = ["n" if getattr(data, n) is None else "v" for n in req]
        prep, prepared = "-", data
        if hasattr(mod, "prepare_dump") and "n" not in at:
            try:
                prepared = mod.prepare_dump(data, allow, "measure")
            except Exception as exc:  # noqa: BLE001
                prep, prepared = _enum(exc), None
        rec = Recorder()
        fail = None
        if prepared is not None and "n" not in at:
            try:
                if fn == "dump_one":
                    mod.dump_one(rec, prepared)
                else:
                    mod.dump_many(rec, iter([prepared]))
            except Exception as exc:  # noqa: BLE001
                fail = _enum(exc)
    return req, at, prep, (len(rec.chunks), fail), rec.chunks


def real_dump(fmt, fn, datas, allow, fs_spec, workdir, names, wmode="ignore"):
    """Run the real dump_one / dump_many on a real path with traced open(); returns (outcome, bytes|None, trace, fd delta).

    ``wmode`` is the caller's warning filter: "ignore", or "error" (warnings as errors, as under ``python -W error``
    and in iodata's own pytest configuration)."""
    from iodata import api

    mod = api.FORMAT_MODULES[fmt]
    path = os.path.join(workdir, "target.out")
    if os.path.exists(path):
        os.unlink(path)
    if fs_spec != "absent":
        with builtins.open(path, "w") as fh:
            fh.write("" if fs_spec == "e" else "".join(t + ";" for t in fs_spec.split(".")))
    tr = fl.Tracer()
    orig_prep = mod.__dict__.get("prepare_dump")
    if orig_prep is not None:
        def spy_prep(data, allow_changes, filename):
            tr.ev.append("p")
            return orig_prep(data, allow_changes, filename)
        mod.prepare_dump = spy_prep
    _SPY["tr"], _SPY["names"] = tr, tuple(names)
    fd0 = fl.fd_count()
    try:
        with fl.patched_io(tr), warnings.catch_warnings():
            warnings.simplefilter(wmode)
            try:
                if fn == "dump_one":
                    api.dump_one(datas[0], path, fmt=fmt, allow_changes=allow)
                    out = "ret"
                else:
                    api.dump_many(iter(datas), path, fmt=fmt, allow_changes=allow)
                    out = "ok"
            except BaseException as exc:  # noqa: BLE001
                out = fl.show_exc(exc)
    finally:
        _SPY["tr"] = None
        if orig_prep is not None:
            mod.prepare_dump = orig_prep
    dfd = fl.fd_count() - fd0
    content = builtins.open(path).read() if os.path.exists(path) else None
    if os.path.exists(path):
        os.unlink(path)
    return out, content, "".join(tr.ev), tr.nw, dfd


def _fs_token(fs_spec, content, chunks, nw, trace):
    orig = None if fs_spec == "absent" else ("" if fs_spec == "e" else "".join(t + ";" for t in fs_spec.split(".")))
    if content is None:
        return "absent"
    if "O" not in trace:
        return fs_spec if content == orig else "changed-without-open"
    if content == "".join(chunks[:nw]):
        return "e" if nw == 0 else ".".join(str(i) for i in range(nw))
    return "bytes-differ"


def real_cases(ctx):
    """(fmt, fn, label, [objects], allow, fs_spec, expectation) over the real cross product."""
    from iodata import api

    rng = ctx.rng
    cases = []
    for (fmt, fn), _ in sorted(PINNED_REQUIRED.items()):
        mod = api.FORMAT_MODULES[fmt]
        if not hasattr(mod, fn):
            continue
        base = _load_base(fmt)
        if fn == "dump_many" and fmt == "mol2":
            pass
        req = list(getattr(mod, fn).required)
        names = sorted(set(req) | set(PINNED_REQUIRED[(fmt, fn)]))
        subsets = [s for r in range(len(names) + 1) for s in itertools.combinations(names, r)]
        if not ctx.thorough and len(subsets) > 16:
            subsets = subsets[: len(names) + 1] + rng.sample(subsets[len(names) + 1:], 15 - len(names))
        variants = [("none:" + ",".join(sub) if sub else "intact", variant(base, sub), sub, None) for sub in subsets]
        for label, obj, rej in rejection_variants(fmt, base):
            variants.append(("reject:" + label, obj, (), rej))
        for label, obj, sub, rej in variants:
            for allow in (False, True):
                for fs_spec in ("absent", "7.7"):
                    if fn == "dump_one":
                        cases.append((fmt, fn, label, [obj], 0, allow, fs_spec, sub, rej, names))
                    else:
                        good = variant(base)
                        for i in range(3):
                            frames = [good, good, good]
                            frames[i] = obj
                            cases.append((fmt, fn, label, frames, i, allow, fs_spec, sub, rej, names))
    return cases


def _correspond_real(ctx):
    from iodata import api

    work = tempfile.mkdtemp(prefix="vh-c08r-")
    reqs, outs, nontriv, classes = [], [], [], []
    try:
        for fmt, fn, label, frames, idx, allow, fs_spec, sub, rej, names in real_cases(ctx):
            mod = api.FORMAT_MODULES[fmt]
            ms = [measure(mod, fn, d, allow) for d in frames]
            chunks = []
            fr = []
            pre = post = 0
            if fn == "dump_many":
                # header / footer writes of the real writer: difference between a one-frame run and a two-frame run
                good = [m for m in ms if "n" not in m[1] and m[2] == "-" and m[3][1] is None]
                if good:
                    rec2 = Recorder()
                    with warnings.catch_warnings():
                        warnings.simplefilter("ignore")
                        marks = []

                        def it(objs, rec=rec2, marks=marks):
                            for o in objs:
                                marks.append(len(rec.chunks))
                                yield o
                            marks.append(len(rec.chunks))

                        gobj = [d for d, m in zip(frames, ms) if m in good][0]
                        pg = mod.prepare_dump(gobj, allow, "m") if hasattr(mod, "prepare_dump") else gobj
                        mod.dump_many(rec2, it([pg, pg]))
                    pre, per, post = marks[0], marks[1] - marks[0], len(rec2.chunks) - marks[2]
                    per2 = marks[2] - marks[1]
                else:
                    per = per2 = 0
            for k, m in enumerate(ms):
                req, at, prep, (n, fail), ch = m
                if fn == "dump_many" and fail is None and prep == "-" and "n" not in at:
                    n = per if k == 0 else per2
                fr.append(_frame(at, prep=prep, w=(n, fail)))
            kv = {"hp": "1" if hasattr(mod, "prepare_dump") else "0", "fs": fs_spec, "frames": ";".join(fr)}
            if fn == "dump_many":
                kv["pre"], kv["post"] = f"{pre}:-", f"{post}:-"
            out, content, trace, nw, dfd = real_dump(fmt, fn, frames, allow, fs_spec, work, names)
            # expected bytes: what the writer produces on the frames before the fault
            if fn == "dump_one":
                chunks = ms[0][4]
            else:
                ok_prefix = []
                for d, m in zip(frames, ms):
                    if "n" in m[1] or m[2] != "-":
                        break
                    ok_prefix.append(d)
                rec3 = Recorder()
                with warnings.catch_warnings():
                    warnings.simplefilter("ignore")
                    try:
                        pl = [mod.prepare_dump(d, allow, "m") if hasattr(mod, "prepare_dump") else d for d in ok_prefix]
                        if pl:
                            mod.dump_many(rec3, iter(pl))
                    except Exception:  # noqa: BLE001
                        pass
                chunks = rec3.chunks
            line = f"{out} fs={_fs_token(fs_spec, content, chunks, nw, trace)} tr={trace}"
            if dfd != 0:
                line += f" FD-LEAK({dfd})"
            reqs.append(fl.request_line(fn, kv))
            outs.append(line)
            nontriv.append(not (out in ("ret", "ok")))
            classes.append(f"{fmt}.{fn}/{label.split(':')[0]}/{out}")
    finally:
        shutil.rmtree(work, ignore_errors=True)
    ctx.corr("flow-real", reqs, outs, nontriv, classes)


def correspond(ctx):
    _run_controlled_stream(ctx, "flow", _controlled_cases(ctx))
    _correspond_real(ctx)
    prep.correspond(ctx)


# ----------------------------------------------------------------------------------------------------
# S: the property's own predicate on the real code (no model involved)
# ----------------------------------------------------------------------------------------------------
ALLOWED_DUMP = {"PrepareDumpError", "DumpError", "FileFormatError"}


def check_real_case(case, work):
    """Returns None or (sig, what)."""
    fmt, fn, label, frames, idx, allow, fs_spec, sub, rej, names = case
    from iodata import api

    mod = api.FORMAT_MODULES[fmt]
    out, content, trace, nw, dfd = real_dump(fmt, fn, frames, allow, fs_spec, work, names)
    orig = None if fs_spec == "absent" else "".join(t + ";" for t in fs_spec.split("."))
    cls = out.split(":")[1] if out.startswith("raise:") else None
    where = f"{fmt}.{fn}"
    if dfd != 0:
        return (f"fd-leak:{where}", f"{where}: {dfd} file descriptors left open ({label})")
    if "O" in trace and not trace.endswith("c") and trace.count("O") != trace.count("c"):
        return (f"not-closed:{where}", f"{where}: output file not closed ({label})")
    if cls is not None and cls not in ALLOWED_DUMP:
        return (f"escape:{where}:{cls}", f"{where}: {cls} escaped ({label}, allow_changes={allow})")
    declared = list(getattr(mod, fn).required)
    missing_declared = [n for n in declared if getattr(frames[idx], n) is None]
    missing_pinned = [n for n in PINNED_REQUIRED[(fmt, fn)] if getattr(frames[idx], n) is None]
    must_reject = bool(missing_declared) or (rej is not None and rej(allow))
    if must_reject or missing_pinned:
        tag = "missing:" + ",".join(missing_declared or missing_pinned) if (missing_declared or missing_pinned) else label
        if idx == 0:
            if must_reject and cls != "PrepareDumpError":
                return (f"preflight-class:{where}:{tag}", f"{where}: {tag}: expected PrepareDumpError, got {out}")
            if cls is not None and content != orig:
                return (f"preflight-clobber:{where}:{tag}",
                        f"{where}: {tag}: raised {cls} but the target changed from {orig!r} to {content and content[:30]!r}")
            if not must_reject and cls is None:
                return None  # a formerly required attribute is now handled: fine
        else:
            if cls is None:
                return (f"later-swallowed:{where}:{tag}", f"{where}: fault of frame {idx} ({tag}) was swallowed")
            if must_reject and cls not in ("PrepareDumpError", "DumpError"):
                return (f"later-class:{where}:{tag}", f"{where}: fault of frame {idx} ({tag}) surfaced as {cls}")
    return None


def check_real_case_werror(case, work):
    """The same call with the caller's filter turning warnings into errors: whatever is raised must still be one of
    the documented classes, and a failure before the file was opened must leave the target's bytes alone."""
    fmt, fn, label, frames, idx, allow, fs_spec, sub, rej, names = case
    out, content, trace, nw, dfd = real_dump(fmt, fn, frames, allow, fs_spec, work, names, wmode="error")
    orig = None if fs_spec == "absent" else "".join(t + ";" for t in fs_spec.split("."))
    cls = out.split(":")[1] if out.startswith("raise:") else None
    where = f"{fmt}.{fn}"
    if dfd != 0:
        return (f"fd-leak:{where}:warnings-as-errors", f"{where}: {dfd} file descriptors left open ({label}, -W error)")
    if cls is not None and cls not in ALLOWED_DUMP:
        return (f"escape:{where}:{cls}:warnings-as-errors",
                f"{where}: {cls} escaped under warnings-as-errors ({label}, allow_changes={allow}); target "
                f"{'changed' if content != orig else 'unchanged'}")
    if cls == "PrepareDumpError" and content != orig and idx == 0:
        return (f"preflight-clobber:{where}:warnings-as-errors",
                f"{where}: PrepareDumpError under warnings-as-errors but the target changed ({label})")
    return None


def _case_key(case):
    fmt, fn, label, frames, idx, allow, fs_spec, sub, rej, names = case
    return {"kind": "real", "fmt": fmt, "fn": fn, "label": label, "idx": idx, "allow": allow, "fs": fs_spec}


def _find_case(ctx, key):
    for c in real_cases(ctx):
        if _case_key(c) == key:
            return c
    return None


def _search_misc(ctx, work):
    """empty dump_many, unknown formats, write_input, fault injection into the real writers."""
    from iodata import api, dump_many, dump_one, write_input
    from iodata.utils import DumpError, FileFormatError, WriteInputError

    path = os.path.join(work, "misc.out")

    def state():
        return builtins.open(path).read() if os.path.exists(path) else None

    def setfs(spec):
        if os.path.exists(path):
            os.unlink(path)
        if spec is not None:
            with builtins.open(path, "w") as fh:
                fh.write(spec)

    base = variant(_load_base("xyz"))
    for spec in (None, "OLD"):
        for fmt in ("mol2", "pdb", "sdf", "xyz"):
            setfs(spec)
            try:
                dump_many(iter([]), path, fmt=fmt)
                got = "no exception"
            except BaseException as exc:  # noqa: BLE001
                got = type(exc).__name__
            ok = got == "DumpError" and state() == spec
            ctx.count("empty-many", [fmt, spec], "ok" if ok else "bad")
            if not ok:
                ctx.fail(f"empty-many:{fmt}", f"dump_many of an empty sequence to {fmt}: {got}, target {spec!r} -> {state()!r}",
                         {"kind": "empty-many", "fmt": fmt, "fs": spec})
        for entry, kw in (("dump_one", {"fmt": "nope"}), ("dump_one", {"fmt": "gaussianlog"}), ("dump_many", {"fmt": "molden"}),
                          ("dump_one", {}), ("write_input", {"fmt": "nope"})):
            setfs(spec)
            p2 = path if kw else os.path.join(work, "misc.unknownext")
            try:
                if entry == "dump_one":
                    dump_one(base, p2, **kw)
                elif entry == "dump_many":
                    dump_many(iter([base]), p2, **kw)
                else:
                    write_input(base, p2, **kw)
                got = "no exception"
            except BaseException as exc:  # noqa: BLE001
                got = type(exc).__name__
            ok = got == "FileFormatError" and state() == spec and not os.path.exists(os.path.join(work, "misc.unknownext"))
            ctx.count("unknown-format", [entry, str(kw), spec], "ok" if ok else "bad")
            if not ok:
                ctx.fail(f"unknown-format:{entry}:{kw.get('fmt')}", f"{entry}({kw}): {got}, target {spec!r} -> {state()!r}",
                         {"kind": "unknown-format", "entry": entry, "kw": kw, "fs": spec})
    # the format deduced from the file name does not support the operation (a format that can only be read; a
    # single-frame format asked for a trajectory): FileFormatError before anything is touched, as for an explicit fmt
    for spec in (None, "OLD"):
        for entry, name in ([("dump_one", n) for n in ("job.log", "conf.gro", "run.out", "mol.crd", "wfn.mwfn", "x.extxyz", "x.com")]
                            + [("dump_many", n) for n in ("x.fchk", "x.molden", "x.cube", "x.wfn", "x.wfx", "POSCAR.x", "x.mkl", "x.json")]):
            p2 = os.path.join(work, name)
            if os.path.exists(p2):
                os.unlink(p2)
            if spec is not None:
                with builtins.open(p2, "w") as fh:
                    fh.write(spec)
            try:
                if entry == "dump_one":
                    dump_one(base, p2)
                else:
                    dump_many(iter([base, base]), p2)
                got = "no exception"
            except BaseException as exc:  # noqa: BLE001
                got = type(exc).__name__
            now = builtins.open(p2).read() if os.path.exists(p2) else None
            ok = got == "FileFormatError" and now == spec
            ctx.count("unsupported-by-name", [entry, name, spec], "ok" if ok else "bad")
            if not ok:
                ctx.fail(f"unsupported-by-name:{entry}:{name.split('.')[-1]}",
                         f"{entry}(..., {name!r}) (format from the name, operation not supported): {got}, target {spec!r} -> {now!r}",
                         {"kind": "unknown-format", "entry": entry, "kw": {}, "fs": spec, "name": name})
            if os.path.exists(p2):
                os.unlink(p2)
    # arbitrary exception classes out of prepare_dump / a property getter of a real format (pre-flight funnel)
    import iodata.formats.molden as molden_mod
    import iodata.formats.xyz as xyz_mod

    wdata = variant(_load_base("molden"))
    xdata = variant(_load_base("xyz"))
    classes = [TypeError, KeyError, IndexError, AttributeError, ZeroDivisionError, RuntimeError, StopIteration,
               OSError, AssertionError, fl.Boom]
    orig = molden_mod.prepare_dump
    try:
        for cls in classes:
            def bad_prepare(data, allow_changes, filename, cls=cls):
                raise cls("injected")
            molden_mod.prepare_dump = bad_prepare
            for spec in (None, "OLD"):
                setfs(spec)
                try:
                    dump_one(wdata, path, fmt="molden")
                    got = "no exception"
                except BaseException as exc:  # noqa: BLE001
                    got = type(exc).__name__
                ok = got == "PrepareDumpError" and state() == spec
                ctx.count("prepare-raises", ["molden", cls.__name__, spec], "ok" if ok else "bad")
                if not ok:
                    ctx.fail(f"prepare-raises:dump_one:{got}", f"molden.prepare_dump raising {cls.__name__}: dump_one gave {got}, "
                             f"target {spec!r} -> {state()!r}", {"kind": "prepare-raises", "cls": cls.__name__, "fs": spec})
    finally:
        molden_mod.prepare_dump = orig
    # the same through dump_many (xyz gets a temporary prepare_dump): first frame / later frame
    try:
        for cls in classes:
            for bad_index in (0, 1, 2):
                calls = {"n": 0}

                def bad_prepare(data, allow_changes, filename, cls=cls, bad_index=bad_index, calls=calls):
                    calls["n"] += 1
                    if calls["n"] == bad_index + 1:
                        raise cls("injected")
                    return data
                xyz_mod.prepare_dump = bad_prepare
                setfs("OLD")
                try:
                    dump_many(iter([xdata, xdata, xdata]), path, fmt="xyz")
                    got = "no exception"
                except BaseException as exc:  # noqa: BLE001
                    got = type(exc).__name__
                if bad_index == 0:
                    ok = got == "PrepareDumpError" and state() == "OLD"
                else:
                    ok = got in ("PrepareDumpError", "DumpError")
                ctx.count("prepare-raises-many", [cls.__name__, bad_index], "ok" if ok else "bad")
                if not ok:
                    ctx.fail(f"prepare-raises:dump_many:frame{min(bad_index, 1)}:{got}",
                             f"prepare_dump raising {cls.__name__} for frame {bad_index} of dump_many gave {got}, target 'OLD' -> {state()!r}",
                             {"kind": "prepare-raises-many", "cls": cls.__name__, "idx": bad_index})
    finally:
        if "prepare_dump" in xyz_mod.__dict__:
            del xyz_mod.prepare_dump
    # fault injection: an exception at the k-th write call of every real writer, every k
    rng = ctx.rng
    jobs = []
    for (fmt, fn) in sorted(PINNED_REQUIRED):
        jobs.append((fmt, fn))
    jobs += [("gaussian", "write_input"), ("orca", "write_input")]
    for fmt, fn in jobs:
        if fn == "write_input":
            data = variant(_load_base("xyz"))
            nchunks = None
        else:
            data = variant(_load_base(fmt))
        # count the write calls of an undisturbed run
        tr = fl.Tracer()
        setfs(None)
        with fl.patched_io(tr), warnings.catch_warnings():
            warnings.simplefilter("ignore")
            if fn == "dump_one":
                dump_one(data, path, fmt=fmt)
            elif fn == "dump_many":
                dump_many(iter([data, data]), path, fmt=fmt)
            else:
                write_input(data, path, fmt)
        total = tr.nw
        ks = list(range(total)) if (ctx.thorough or total <= 40) else sorted(rng.sample(range(total), 40))
        want = "WriteInputError" if fn == "write_input" else "DumpError"
        for k in ks:
            for excname in ("Other", "OSError") if not ctx.thorough else ("Other", "OSError", "StopIteration", "PrepareDumpError", "RuntimeError"):
                if fn == "dump_many" and excname == "PrepareDumpError":
                    continue  # documented pass-through class of dump_many
                tr = fl.Tracer()
                tr.inject[k] = excname
                setfs("OLD")
                fd0 = fl.fd_count()
                with fl.patched_io(tr), warnings.catch_warnings():
                    warnings.simplefilter("ignore")
                    try:
                        if fn == "dump_one":
                            dump_one(data, path, fmt=fmt)
                        elif fn == "dump_many":
                            dump_many(iter([data, data]), path, fmt=fmt)
                        else:
                            write_input(data, path, fmt)
                        got = "no exception"
                    except BaseException as exc:  # noqa: BLE001
                        got = type(exc).__name__
                closed = tr.ev and tr.ev[-1] == "c" and fl.fd_count() == fd0
                ok = got == want and closed
                ctx.count("write-fault", [fmt, fn, k, excname], "ok" if ok else "bad", sample={"fmt": fmt, "fn": fn, "k": k, "exc": excname})
                if not ok:
                    ctx.fail(f"write-fault:{fmt}.{fn}:{got}", f"{fmt}.{fn}: {excname} injected at write #{k} of {total} gave {got}, closed={closed}",
                             {"kind": "write-fault", "fmt": fmt, "fn": fn, "k": k, "exc": excname})


def search(ctx):
    work = tempfile.mkdtemp(prefix="vh-c08s-")
    try:
        for case in real_cases(ctx):
            r = check_real_case(case, work)
            key = _case_key(case)
            ctx.count("search-real", key, "ok" if r is None else r[0].split(":")[0], nontrivial=case[2] != "intact", sample=key)
            if r:
                ctx.fail(r[0], r[1], key)
            # the caller's warning filter is a configuration of the same call: warnings as errors
            if case[5] or case[2] == "intact":
                r = check_real_case_werror(case, work)
                key = dict(key, warnings="error")
                ctx.count("search-real-werror", key, "ok" if r is None else r[0].split(":")[0], nontrivial=case[2] != "intact", sample=key)
                if r:
                    ctx.fail(r[0], r[1], key)
        _search_misc(ctx, work)
    finally:
        shutil.rmtree(work, ignore_errors=True)
    prep.search(ctx)


def replay(ctx, obj):
    inp = obj["input"]
    if isinstance(inp, dict) and inp.get("kind") == "prepare":
        return prep.replay(ctx, inp)
    work = tempfile.mkdtemp(prefix="vh-c08p-")
    try:
        if inp.get("kind") == "real":
            werr = inp.get("warnings") == "error"
            inp = {k: v for k, v in inp.items() if k != "warnings"}
            case = _find_case(ctx, inp)
            if case is None:
                ctx.tier = "thorough"
                case = _find_case(ctx, inp)
            return case is not None and (check_real_case_werror if werr else check_real_case)(case, work) is not None
        sub = Ctx_proxy(ctx)
        _search_misc(sub, work)
        return any(f["input"] == inp for f in sub.failures)
    finally:
        shutil.rmtree(work, ignore_errors=True)


class Ctx_proxy:
    """Collects failures of a re-run without touching the real context's counters."""

    def __init__(self, ctx):
        self.rng, self.thorough, self.failures = ctx.rng, True, []

    def count(self, *a, **k):
        pass

    def fail(self, sig, what, inp):
        self.failures.append({"sig": sig, "what": what, "input": inp})
