"""C03 — loaded values are exactly what the file says under the published layout."""

from __future__ import annotations

from . import _checks as K
from ._adapters import ADAPTERS
from ._layouts import translate  # noqa: F401  (T1)

MODULES = ["Iodata.Props.C03"]
RULE = (
    "per format, a random molecular model (sizes cycling through every field-width boundary: 9/10, 99/100, 999/1000, 9999/10000 "
    "atoms and bonds, thorough also 99999/100000 where a 5-column serial exists; all elements; magnitudes from the classes "
    "{0, -0, last digit, smallest/largest value with k integer digits for every k the column holds}) is rendered by the Lean "
    "spec renderer of the *published* layout (free-format blank runs are part of the random input; fixed-column formats are "
    "rendered from hand-written column tables; FCHK with Gaussian's widths E22.15 / 6I12 / 5E16.8 and array lengths around "
    "every multiple of 5 and 6; Cube as I5,4F12.6 / 6E13.5 with rows of length 1..25) and by an independent Python writer "
    "(spec-writers-agree), then read by iodata.api.load_one: spec-load:<fmt> requires the re-quantised result to equal the "
    "model; load-spec:<fmt> compares it with the Lean reader model (xyz, sdf, pdb incl. multi-line TITLE/COMPND, mol2, "
    "gro with precisions 1-6, residue numbers up to 99999, touching fields, with/without velocities, 3- and 9-number "
    "boxes; cube; fchk). spec-py:<fmt> (GRO, MOL2, extended XYZ with Lattice / "
    "Properties / energy): Python spec writer only, result compared with the model. non-trivial = distinct file"
)
TRUSTED = [
    "harness/vh/props/_layouts.py: ast extraction of line slices / words[i] uses",
    "the hand-written spec column tables in lean/Iodata/Model/Fmt/*.lean and the Python spec writers in _adapters.py "
    "(cross-checked against each other byte for byte on every case)",
    "lean/Iodata/Drv/Fmt.lean: hex and object (de)coding, splitting of file bytes into lines",
    "harness/vh/props/_gro.py, _mol2.py, _cube.py, _fchk.py: spec object generators, independent Python spec writers, "
    "exact re-quantisation of the loaded values",
]
ASSUMPTIONS = [
    "text-mode I/O: files contain printable ASCII, tabs and '\\n' only",
    "CPython float(str) is correctly rounded; loaded doubles are re-quantised exactly with fractions.Fraction",
    "int()/float() syntax beyond plain decimals (underscores, exponents, inf/nan) is outside the reader models",
]
TIME_LIMIT = {"quick": 1200, "thorough": 7200}

FORMATS = ["xyz", "sdf", "pdb"]


def correspond(ctx):
    from . import _fchk

    for k in FORMATS:
        K.c03_flow(ctx, ADAPTERS[k], ctx.n(600, 2500))
    _fchk.c03_flow(ctx, ctx.n(800, 3000))
    from ._cube import CUBE
    from ._fcidump import corr_index
    from ._mol2 import MOL2

    K.c03_flow(ctx, MOL2, ctx.n(600, 2500))
    from ._gro import GRO

    K.c03_flow(ctx, GRO, ctx.n(600, 2500))
    corr_index(ctx, ctx.n(6, 9))
    from ._poscar import corr_struct

    corr_struct(ctx, ctx.n(200, 800))

    K.c03_flow(ctx, CUBE, ctx.n(800, 3000))
    _fchk.corr_shuffles(ctx)


def search(ctx):
    from ._adapters2 import SPEC_ONLY

    sdf_records_many(ctx)
    wfn_component_order(ctx)

    for k, ad in SPEC_ONLY.items():
        K.c03_spec_only(ctx, ad, ctx.n(800, 3000) * (3 if ctx.escalated else 1))
    # the direct evaluation (spec-load:<fmt>) is part of c03_flow; with a broken obligation run a second, larger batch
    if ctx.escalated:
        for k in FORMATS:
            K.c03_flow(ctx, ADAPTERS[k], ctx.n(120, 800))


def sdf_records_many(ctx):
    """SD files of several records whose three header lines are filled as other programs fill them (blank molecule name,
    program/timestamp line, comment line): every record read by load_many carries exactly what the same record carries
    when it is a file of its own (header line 1 is the title, whatever lines 2 and 3 say)."""
    from . import _formats as F
    from . import c13

    rng = ctx.rng
    for it in range(ctx.n(40, 300)):
        nf = rng.choice([2, 3, 4])
        lines, _meta, _frames = c13.make_file(rng, "sdf", nf)
        starts = c13.frame_spans("sdf", lines)
        bounds = starts[1:] + [len(lines)]
        got, final = c13.impl_load_many("sdf", lines)
        bad = None
        if final != "done" or len(got) != nf:
            bad = ("sdf:spec:many-records", f"{nf} records, load_many gives {len(got)} / {final}")
        else:
            for i, (s0, e0) in enumerate(zip(starts, bounds)):
                one = F.real_load("".join(lines[s0:e0]).encode(), "sdf")
                if not one.ok:
                    continue
                d = F.snap_diff(F.snap_iodata(one.value), F.snap_iodata(got[i][4]))
                if d:
                    bad = (f"sdf:spec:many-records:{d[0]}", f"record {i}: {d[0]} read by load_many differs from the record loaded alone "
                           f"({getattr(got[i][4], d[0], None)!r} vs {getattr(one.value, d[0], None)!r})"[:300])
                    break
        ctx.count("spec-py:sdf-many", "".join(lines)[:3000], "ok" if bad is None else "FAIL")
        if bad:
            ctx.fail(bad[0], bad[1], {"kind": "sdf-many", "lines": lines})


def _wfn_tokens(lines):
    """positions (line index, start, end) of the per-primitive tokens of a WFN file: centre, type, exponent and, per
    orbital, coefficient — fixed-width fields as AIMPAC prints them (20I3 / 20I3 / 5D14.7 / 5D16.8)"""
    cen, typ, exp, mos = [], [], [], []
    cur = None
    for k, l in enumerate(lines):
        body = l.rstrip("\n")
        if body.startswith("CENTRE ASSIGNMENTS"):
            cen += [(k, p, p + 3) for p in range(20, len(body), 3)]
        elif body.startswith("TYPE ASSIGNMENTS"):
            typ += [(k, p, p + 3) for p in range(20, len(body), 3)]
        elif body.startswith("EXPONENTS"):
            exp += [(k, p, p + 14) for p in range(10, len(body), 14)]
        elif body.startswith("MO ") and "OCC NO" in body:
            cur = []
            mos.append(cur)
        elif body.startswith("END DATA"):
            cur = None
        elif cur is not None:
            cur += [(k, p, p + 16) for p in range(0, len(body), 16)]
    return cen, typ, exp, mos


def wfn_swap_components(text, rng):
    """the same wavefunction with, inside one shell, the primitives of two Cartesian components listed in exchanged
    order (every primitive carries its own type code, so any order is well-formed); None when the file has no l >= 1 shell"""
    lines = text.splitlines(keepends=True)
    cen, typ, exp, mos = _wfn_tokens(lines)
    n = len(typ)
    if not (len(cen) == len(exp) == n) or any(len(m) != n for m in mos) or not mos:
        return None
    codes = [int(lines[k][a:b]) for k, a, b in typ]
    ncart_of = lambda c: 1 if c == 1 else 3 if c <= 4 else 6 if c <= 10 else 10 if c <= 20 else 15 if c <= 35 else 21  # noqa: E731
    # batches as the format lays them out: ncon primitives of the first component, then of the second, ...
    batches, i = [], 0
    while i < n:
        nc = ncart_of(codes[i])
        ncon = 1
        while i + ncon < n and codes[i + ncon] == codes[i]:
            ncon += 1
        if nc == 1:
            i += ncon
            continue
        if i + nc * ncon <= n and len({codes[i + f * ncon] for f in range(nc)}) == nc:
            batches.append((i, nc, ncon))
            i += nc * ncon
        else:
            i += ncon
    if not batches:
        return None
    i0, nc, ncon = rng.choice(batches)
    fa, fb = rng.sample(range(nc), 2)

    def swap(tokens):
        for c in range(ncon):
            (k1, a1, b1), (k2, a2, b2) = tokens[i0 + fa * ncon + c], tokens[i0 + fb * ncon + c]
            t1, t2 = lines[k1][a1:b1], lines[k2][a2:b2]
            lines[k1] = lines[k1][:a1] + t2 + lines[k1][b1:]
            lines[k2] = lines[k2][:a2] + t1 + lines[k2][b2:]

    for toks in (cen, typ, exp, *mos):
        swap(toks)
    return "".join(lines)


def wfn_component_order(ctx):
    """WFN files in which the components of a shell are listed in another order denote the same orbitals: the loaded
    orbitals take the same values at probe points as those of the original file"""
    import numpy as np

    from . import _formats as F
    from . import c01
    from ..engine import REPO

    rng = ctx.rng
    names = ["h2o_sto3g.wfn", "he_p_orbital.wfn", "he_d_orbital.wfn", "he_spd_orbital.wfn", "he_spdf_orbital.wfn", "li_sp_orbital.wfn",
             "lih_cation_uhf.wfn", "lif_fci.wfn"]
    for name in names:
        p = REPO / "iodata" / "test" / "data" / name
        if not p.exists():
            continue
        text = p.read_text()
        base = F.real_load(text.encode(), "wfn")
        if not base.ok:
            continue
        pts = c01.probe_points(base.value.atcoords, 7, n=12)
        v0 = c01.wf_values(base.value, pts)
        for _ in range(ctx.n(3, 12)):
            t2 = wfn_swap_components(text, rng)
            if t2 is None or t2 == text:
                continue
            r = F.real_load(t2.encode(), "wfn")
            bad = None
            if not r.ok:
                bad = f"a file with exchanged component order is refused: {r.err}"
            else:
                v1 = c01.wf_values(r.value, pts)
                v0a = v0[0] if isinstance(v0, tuple) else v0
                v1a = v1[0] if isinstance(v1, tuple) else v1
                if np.shape(v0a) != np.shape(v1a) or float(np.abs(np.asarray(v1a) - np.asarray(v0a)).max()) > 1e-7 * (1 + float(np.abs(np.asarray(v0a)).max())):
                    bad = "orbital values at the probe points differ from those of the file in default component order"
            ctx.count("spec-py:wfn-component-order", t2[:3000], name + ("" if bad is None else "/FAIL"))
            if bad:
                ctx.fail("wfn:spec:component-order", f"{name}: {bad}", {"kind": "wfn-order", "file": name, "text": t2})
                break


def replay(ctx, obj):
    if obj["input"].get("kind") == "wfn-order":
        import numpy as np

        from . import _formats as F
        from . import c01
        from ..engine import REPO

        base = F.real_load((REPO / "iodata" / "test" / "data" / obj["input"]["file"]).read_bytes(), "wfn")
        r = F.real_load(obj["input"]["text"].encode(), "wfn")
        if not r.ok:
            return True
        pts = c01.probe_points(base.value.atcoords, 7, n=12)
        v0, v1 = c01.wf_values(base.value, pts), c01.wf_values(r.value, pts)
        v0 = v0[0] if isinstance(v0, tuple) else v0
        v1 = v1[0] if isinstance(v1, tuple) else v1
        return np.shape(v0) != np.shape(v1) or float(np.abs(np.asarray(v1) - np.asarray(v0)).max()) > 1e-7 * (1 + float(np.abs(np.asarray(v0)).max()))
    if obj["input"].get("kind") == "sdf-many":
        from . import _formats as F
        from . import c13

        lines = obj["input"]["lines"]
        starts = c13.frame_spans("sdf", lines)
        bounds = starts[1:] + [len(lines)]
        got, final = c13.impl_load_many("sdf", lines)
        if final != "done" or len(got) != len(starts):
            return True
        for i, (s0, e0) in enumerate(zip(starts, bounds)):
            one = F.real_load("".join(lines[s0:e0]).encode(), "sdf")
            if one.ok and F.snap_diff(F.snap_iodata(one.value), F.snap_iodata(got[i][4])):
                return True
        return False
    return K.replay_generic(ctx, obj)


from . import _readers; _readers.install(globals())  # noqa: E402,E702  reader-only and log formats (Iodata.Props.C03Readers)


def _wrap_labelled():
    """labelled records (WFX gradient rows): appended after the readers hook so that both wrappers run"""
    from . import _labelled

    g = globals()
    base_search, base_replay = g["search"], g["replay"]

    def search(ctx):
        base_search(ctx)
        _labelled.search(ctx)

    def replay(ctx, obj):
        if obj.get("input", {}).get("kind") == "labelled":
            return _labelled.replay(ctx, obj)
        return base_replay(ctx, obj)

    g["search"], g["replay"] = search, replay


_wrap_labelled()
