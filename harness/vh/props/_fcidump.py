"""FCIDUMP index layer: the writer's canonical loop and the reader's 8-fold fill against the Lean model."""

from __future__ import annotations

import numpy as np

from . import _formats as F


def corr_index(ctx, nmax):
    from iodata import IOData

    rng = ctx.rng
    # (a) order and set of the index quadruples the real writer emits for an array without zeros
    req, imp, cls = [], [], []
    for n in range(1, nmax + 1):
        two = np.ones((n, n, n, n))
        r = F.real_dump(IOData(one_ints={"core_mo": np.zeros((n, n))}, two_ints={"two_mo": two}, nelec=2, spinpol=0), "fcidump")
        quads = []
        for line in r.value.decode().splitlines()[4:]:
            w = line.split()
            if len(w) == 5 and w[3] != "0":
                quads.append(":".join(str(int(x) - 1) for x in w[1:]))
        req.append(f"fmt fcloop fcidump - {n}")
        imp.append("ok " + F.enc_list(quads, str))
        cls.append(f"loop/n={n}")
    ctx.corr("index-loop:fcidump", req, imp, None, cls)
    # (b) the array the real reader builds from arbitrary lines (any order, non-canonical indices, repeated orbits)
    req, imp, cls = [], [], []
    for i in range(ctx.n(120, 600)):
        n = [1, 2, 3, 4][i % 4]
        k = rng.randint(0, 12)
        es = [(rng.randint(1, 99), *(rng.randrange(n) for _ in range(4))) for _ in range(k)]
        lines = [f" &FCI NORB={n},NELEC=2,MS2=0,", "  ORBSYM= " + ",".join("1" for _ in range(n)) + ",", "  ISYM=1", " &END"]
        lines += [f"{float(v):23.16e} {a + 1:4d} {b + 1:4d} {c + 1:4d} {d + 1:4d}" for v, a, b, c, d in es]
        r = F.real_load(("\n".join(lines) + "\n").encode(), "fcidump")
        req.append(f"fmt fcfill fcidump - {n};" + F.enc_list(es, lambda e: ":".join(str(x) for x in e)))
        imp.append("ok " + F.enc_list([int(v) for v in r.value.two_ints["two_mo"].ravel()], str, "/") if r.ok else "err " + r.err)
        canonical = all(b <= a and d <= c and a * (a + 1) // 2 + b >= c * (c + 1) // 2 + d for _, a, b, c, d in es)
        cls.append(f"fill/n={n}/lines={'0' if not k else 'n'}/canonical={int(canonical)}")
    ctx.corr("index-fill:fcidump", req, imp, None, cls)
