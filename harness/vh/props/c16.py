"""C16 — results depend only on the arguments, not on call history or interleaving."""

from __future__ import annotations

import concurrent.futures
import hashlib
import importlib
import json
import os
import pkgutil
import shutil
import subprocess
import sys
import tempfile
import threading
import warnings

import numpy as np

from .. import corpus
from ..effects import write_gen
from ..engine import REPO
from ..snapshot import snap

MODULES = ["Iodata.Props.C16"]
RULE = (
    "pool of API calls (load_one/load_many on corpus files incl. files of the wrong format, dump_one/dump_many of loaded "
    "objects to every format incl. refused ones, write_input) executed (a) each alone in a fresh interpreter = reference, "
    "(b) sequentially in shuffled order with repetitions in one interpreter, (c) on 2-16 threads with switch interval "
    "1e-6 s on distinct output files; every result (sha1 of the deep object snapshot / written bytes / exception class "
    "and message) compared with the reference; deep snapshot of every module-level mutable table of every iodata module "
    "before/after. non-trivial = distinct call in the pool"
)
TRUSTED = [
    "completeness of the static effect analysis harness/vh/effects.py for module-level tables (cross-checked by the "
    "dynamic table snapshots on every run)",
]
ASSUMPTIONS = [
    "delivery of warnings under threads is not covered (warnings.catch_warnings is process-global in CPython 3.12); "
    "returned objects and written bytes are",
    "BLAS/OpenMP pinned to one thread so summation order is not a hidden source of run-to-run differences",
]
TIME_LIMIT = {"quick": 1200, "thorough": 7200}


def translate(ctx):
    write_gen(ctx, REPO)


# ---------------------------------------------------------------------------
def _sha(x) -> str:
    return hashlib.sha1(repr(x).encode()).hexdigest()[:20]


_SHARED = None  # (path, fmt) -> loaded object, when the sequential phase shares source objects between calls


def run_call(call, workdir):
    """Execute one API call; canonical result string (no addresses, tmp paths normalised)."""
    from iodata import dump_many, dump_one, load_many, load_one, write_input

    kind = call[0]
    os.makedirs(workdir, exist_ok=True)
    try:
        with warnings.catch_warnings():
            warnings.simplefilter("ignore")
            if kind == "load_one":
                o = load_one(call[1], fmt=call[2])
                return "obj:" + _sha(snap(o))
            if kind == "load_many":
                frames = list(load_many(call[1], fmt=call[2]))
                return f"objs:{len(frames)}:" + _sha([snap(o) for o in frames])
            out = os.path.join(workdir, call[5] if len(call) > 5 else "out")
            if kind == "convert":
                src = None
            elif _SHARED is not None:
                # load once, dump many times — as a script does; a dump that alters its argument shows up in the next dump
                key = (call[1], call[2])
                if key not in _SHARED:
                    _SHARED[key] = load_one(call[1], fmt=call[2])
                src = _SHARED[key]
            else:
                src = load_one(call[1], fmt=call[2])
            if kind == "dump_reload":
                # write, then read the written file back: loaders also meet files in iodata's own style
                dump_one(src, out, fmt=call[3], allow_changes=call[4])
                o = load_one(out, fmt=call[3])
                return "obj:" + _sha(snap(o))
            if kind == "dump_one":
                dump_one(src, out, fmt=call[3], allow_changes=call[4])
            elif kind == "dump_many":
                dump_many([src, src], out, fmt=call[3], allow_changes=call[4])
            elif kind == "write_input":
                write_input(src, out, fmt=call[3])
            elif kind == "convert":
                from iodata.__main__ import convert

                convert(call[1], out, False, call[2], call[3], call[4])
            with open(out, "rb") as fh:
                return "bytes:" + hashlib.sha1(fh.read()).hexdigest()[:20]
    except Exception as exc:
        msg = str(exc).replace(workdir, "<TMP>")
        return f"exc:{type(exc).__name__}:{_sha(msg)}"


def _worker_main():
    spec = json.loads(sys.stdin.read())
    tmp = tempfile.mkdtemp(prefix="c16w_")
    global _SHARED
    try:
        res = []
        for k, c in enumerate(spec["calls"]):
            if spec.get("shared_from") is not None and k >= spec["shared_from"] and _SHARED is None:
                _SHARED = {}
            res.append(run_call(c, os.path.join(tmp, "w")))
    finally:
        shutil.rmtree(tmp, ignore_errors=True)
    print(json.dumps(res))


def _fresh(call):
    env = dict(os.environ)
    here = os.path.dirname(os.path.dirname(os.path.dirname(os.path.abspath(__file__))))
    env["PYTHONPATH"] = here + (os.pathsep + os.environ["IODATA_REPO"] if os.environ.get("IODATA_REPO") else "")
    p = subprocess.run([sys.executable, "-c", "from vh.props.c16 import _worker_main; _worker_main()"],
                       input=json.dumps({"calls": [call]}), capture_output=True, text=True, env=env, timeout=600)
    if p.returncode != 0:
        return "worker-crash:" + p.stderr[-200:]
    return json.loads(p.stdout.strip().splitlines()[-1])[0]


_RELOADABLE = {"xyz", "sdf", "pdb", "mol2", "cube", "fchk", "molden", "molekel", "wfn", "wfx", "json", "json_qcschema", "poscar", "fcidump"}


def _fresh_seq(calls, shared_from=None):
    """Run a whole history in one fresh interpreter; result of its last call."""
    env = dict(os.environ)
    here = os.path.dirname(os.path.dirname(os.path.dirname(os.path.abspath(__file__))))
    env["PYTHONPATH"] = here + (os.pathsep + os.environ["IODATA_REPO"] if os.environ.get("IODATA_REPO") else "")
    p = subprocess.run([sys.executable, "-c", "from vh.props.c16 import _worker_main; _worker_main()"],
                       input=json.dumps({"calls": calls, "shared_from": shared_from}), capture_output=True, text=True, env=env,
                       timeout=1200)
    if p.returncode != 0:
        return None
    return json.loads(p.stdout.strip().splitlines()[-1])[-1]


def _shrink(history, call, ref, budget=14, shared=False):
    """Smallest history found (halving, then single removal) after which `call` still differs from `ref`."""
    hist = list(history)
    if shared:
        # sharing of loaded objects from the start is a superset of what the run did
        run = lambda cs: _fresh_seq(cs, 0)  # noqa: E731
    else:
        run = _fresh_seq
    if run([*hist, call]) in (None, ref):
        return history  # not reproducible from a fresh interpreter in this order: keep everything
    step = max(1, len(hist) // 2)
    while budget > 0 and hist:
        i, progressed = 0, False
        while i < len(hist) and budget > 0:
            cand = hist[:i] + hist[i + step:]
            budget -= 1
            r = run([*cand, call])
            if r is not None and r != ref:
                hist, progressed = cand, True
            else:
                i += step
        if step == 1 and not progressed:
            break
        step = max(1, step // 2)
    return hist


def _pool(ctx):
    rng = ctx.rng
    files = corpus.files(max_size=ctx.n(60_000, 200_000))
    rng.shuffle(files)
    # stratified: one file of every loadable format first (every loader runs at least once), the rest at random
    first, seen_fmt = [], set()
    for p in files:
        f = corpus.select_fmt(p)
        if f is not None and f not in seen_fmt:
            seen_fmt.add(f)
            first.append(p)
    files = first + [p for p in files if p not in first]
    calls = []
    nload = max(ctx.n(160, 400), len(first) + 8)  # every corpus file below the size limit: each loader meets every style of file
    for p in files[:nload]:
        fmt = corpus.select_fmt(p)
        if fmt is None:
            continue
        calls.append(["load_one", str(p), fmt])
    # the same loads with the format detected from the file name (several patterns can match one name, e.g.
    # `*.cp2k.out` and `*.out`): detection may not depend on what was detected before
    byname = [p for p in corpus.files(max_size=ctx.n(60_000, 200_000)) if p.name.endswith((".out", ".log", ".xyz", ".molden", ".json"))
              or p.name.startswith(("POSCAR", "CHGCAR", "LOCPOT", "FCIDUMP"))]
    rng.shuffle(byname)
    byname.sort(key=lambda p: not p.name.endswith(".out"))
    for p in byname[: ctx.n(18, 80)]:
        calls.append(["load_one", str(p), None])
    for p in files[: ctx.n(6, 30)]:
        fmt = corpus.select_fmt(p, "load_many")
        if fmt:
            calls.append(["load_many", str(p), fmt])
    # wrong-format loads (failing calls)
    for p in files[: ctx.n(5, 20)]:
        calls.append(["load_one", str(p), rng.choice(["xyz", "fchk", "molden", "sdf", "wfx"])])
    srcs = [c for c in calls if c[0] == "load_one"][: ctx.n(14, 60)]
    # always include a wavefunction source so that WFX/WFN/Molden writers really run
    for name in ("water_sto3g_hf_g03.fchk", "h2o_sto3g.wfn", "water_dimer_ghost.fchk", "he2_ghost_psi4_1.0.molden"):
        p = corpus.DATA / name
        if p.exists():
            srcs.append(["load_one", str(p), corpus.select_fmt(p)])
    k = 0
    reloaded = set()
    for s in srcs:
        for fmt in rng.sample(corpus.DUMP_ONE, ctx.n(3, 8)) + (["wfx"] if s[1].endswith((".fchk", ".wfn", ".molden")) else []):
            k += 1
            calls.append(["dump_one", s[1], s[2], fmt, rng.random() < 0.5, f"o{k}.{corpus.EXT.get(fmt, fmt)}"])
            if fmt in _RELOADABLE and (fmt not in reloaded or rng.random() < 0.15):
                reloaded.add(fmt)
                k += 1
                calls.append(["dump_reload", s[1], s[2], fmt, True, f"r{k}.{corpus.EXT.get(fmt, fmt)}"])
        if rng.random() < 0.4:
            k += 1
            fmt = rng.choice(corpus.DUMP_MANY)
            calls.append(["dump_many", s[1], s[2], fmt, False, f"m{k}.{fmt}"])
        if rng.random() < 0.4:
            k += 1
            calls.append(["write_input", s[1], s[2], rng.choice(["gaussian", "orca", "nosuchprogram"]), False, f"i{k}.in"])
    # every (small) corpus file of a format that can also be written: written back in its own format
    same = [c for c in calls if c[0] == "load_one" and c[2] in corpus.DUMP_ONE]
    rng.shuffle(same)
    for c in same[: ctx.n(70, 300)]:
        k += 1
        calls.append(["dump_one", c[1], c[2], c[2], True, f"s{k}.{corpus.EXT.get(c[2], c[2])}"])
    # conversions through the library function behind the command-line tool
    for s in srcs[: ctx.n(6, 20)]:
        k += 1
        fmt = rng.choice(["xyz", "molden", "fchk", "wfn", "json", "nosuchformat"])
        calls.append(["convert", s[1], s[2], fmt, rng.random() < 0.5, f"c{k}.{corpus.EXT.get(fmt, fmt)}"])
    # numerically degenerate inputs: results must not depend on an error mode set by an earlier call
    for name, text in _degenerate().items():
        p = os.path.join(_DEGEN_DIR, name)
        os.makedirs(_DEGEN_DIR, exist_ok=True)
        with open(p, "w") as fh:
            fh.write(text)
        calls.append(["load_one", p, None])
    # de-duplicate
    seen, out = set(), []
    for c in calls:
        t = json.dumps(c)
        if t not in seen:
            seen.add(t)
            out.append(c)
    return out


_DEGEN_DIR = os.path.join(tempfile.gettempdir(), f"vh-c16-degenerate-{os.getpid()}")


def _degenerate():
    """Small files on which numpy raises a floating-point flag (zero cell volume, zero exponent, overflow)."""
    grid = " 2 2 2\n" + " ".join(["1.0"] * 8) + "\n"
    chg = "zero volume\n 1.0\n 1.0 0.0 0.0\n 2.0 0.0 0.0\n 0.0 0.0 1.0\n H\n 1\nDirect\n 0.0 0.0 0.0\n\n" + grid
    chg0 = "zero scale\n 0.0\n 1.0 0.0 0.0\n 0.0 1.0 0.0\n 0.0 0.0 1.0\n H\n 1\nDirect\n 0.0 0.0 0.0\n\n" + grid
    xyz = "1\nhuge\nH 1e308 0.0 0.0\n"
    # optional parts left out (a reader may not fill them from whatever memory earlier calls left behind)
    gro = ("positions only, t= 0.5\n    3\n    1WATER  OW1    1   0.126   1.624   1.679\n    1WATER  HW2    2   0.190   1.661   1.747\n"
           "    1WATER  HW3    3   0.177   1.568   1.613\n   1.82060   1.82060   1.82060\n")
    gro40 = "forty atoms without velocities\n   40\n" + "".join(
        f"{1 + k // 3:5d}WATER  OW1{k + 1:5d}{0.1 * k:8.3f}{0.05 * k:8.3f}{1.0:8.3f}\n" for k in range(40)) + "   3.0 3.0 3.0\n"
    return {"CHGCAR.zerovol": chg, "CHGCAR.zeroscale": chg0, "huge.xyz": xyz, "novel.gro": gro, "novel40.gro": gro40}


def _procstate():
    """Interpreter- and library-wide settings an API call must leave as it found them."""
    import locale

    return {
        "np.geterr": repr(sorted(np.geterr().items())),
        "np.printoptions": repr(sorted((k, repr(v)) for k, v in np.get_printoptions().items())),
        # filters for third-party warning classes are installed by lazy imports (scipy.special), not by iodata
        "warnings.filters": repr([(a, str(b), getattr(c, "__name__", c), str(d), e) for a, b, c, d, e in warnings.filters
                                  if getattr(c, "__module__", "builtins").split(".")[0] in ("builtins", "iodata")]),
        "os.getcwd": os.getcwd(),
        "os.environ": _sha(sorted(os.environ.items())),
        "sys.path": _sha(list(sys.path)),
        "sys.recursionlimit": sys.getrecursionlimit(),
        "locale": repr(locale.setlocale(locale.LC_ALL)),
        "decimal": repr(__import__("decimal").getcontext()),
    }


def _tables():
    """Deep snapshot of every module-level mutable object of every iodata module."""
    import iodata

    out = {}
    seen_ids = {}
    for mi in sorted(pkgutil.walk_packages(iodata.__path__, "iodata."), key=lambda m: (m.name.count("."), m.name)):
        if ".test" in mi.name:
            continue
        try:
            m = importlib.import_module(mi.name)
        except Exception:
            continue
        for k, v in vars(m).items():
            if k.startswith("__"):
                continue
            if isinstance(v, (dict, list, set, np.ndarray)):
                if id(v) in seen_ids:  # an import alias of a table already listed under its first (shortest) name
                    continue
                seen_ids[id(v)] = f"{mi.name}.{k}"
                try:
                    out[f"{mi.name}.{k}"] = _sha(snap(v)) if not _has_modules(v) else _sha(sorted(map(str, v)))
                except Exception:
                    out[f"{mi.name}.{k}"] = "unsnappable"
            elif isinstance(v, (int, float, str, tuple)):
                out[f"{mi.name}.{k}"] = repr(v)
            elif callable(v) and getattr(v, "__module__", None) == mi.name and getattr(v, "__dict__", None):
                # attributes stored on function objects (hand-made caches) and functools caches
                d = {a: b for a, b in vars(v).items() if not a.startswith("__")}
                if d and not isinstance(v, type):
                    out[f"{mi.name}.{k}.__dict__"] = _sha(sorted((a, repr(snap(b)) if isinstance(b, (dict, list, set)) else type(b).__name__) for a, b in d.items()))
            if callable(v) and hasattr(v, "cache_info"):
                out[f"{mi.name}.{k}.cache_info"] = repr(v.cache_info().currsize)
    for k, v in _procstate().items():
        out["process:" + k] = v
    return out


def _has_modules(v):
    import types

    return isinstance(v, dict) and any(isinstance(x, types.ModuleType) for x in v.values())


def search(ctx):
    import iodata  # noqa: F401

    calls = _pool(ctx)
    ctx.extra_cov["calls_in_pool"] = len(calls)
    # (a) references: each call alone in a fresh interpreter
    with concurrent.futures.ThreadPoolExecutor(max_workers=14) as ex:
        ref = list(ex.map(_fresh, calls))
    crashed = [c for c, r in zip(calls, ref) if r.startswith("worker-crash")]
    if crashed:
        from ..engine import InfraError

        raise InfraError(f"reference worker crashed for {crashed[:2]}: {[r for r in ref if r.startswith('worker-crash')][:1]}")
    tmp = tempfile.mkdtemp(prefix="c16_")
    tables0 = _tables()
    try:
        # (b) shuffled sequential histories with repetition
        order = list(range(len(calls))) * 2
        ctx.rng.shuffle(order)
        # make sure a WFX dump precedes other dumps at least once (the historical defect)
        wfx = [i for i, c in enumerate(calls) if c[0] == "dump_one" and c[3] == "wfx"]
        order = wfx[:2] + order
        global _SHARED
        for n, i in enumerate(order):
            # second half of the history: the objects to dump are loaded once and shared by all later calls
            _SHARED = {} if (n >= len(order) // 3 and _SHARED is None) else _SHARED
            r = run_call(calls[i], os.path.join(tmp, f"s{n}"))
            ok = r == ref[i]
            ctx.count("sequential", calls[i], calls[i][0] + ("/ok" if ok else "/DIFF"), sample={"call": calls[i], "result": r})
            if not ok:
                ctx.fail(f"history-dependent:{calls[i][0]}:{calls[i][3] if len(calls[i]) > 3 else calls[i][2]}",
                         f"call {calls[i]} returned {r} after a history of {n} calls but {ref[i]} alone in a fresh interpreter",
                         {"call": calls[i], "history": _shrink([calls[j] for j in order[:n]], calls[i], ref[i],
                                                                 shared=_SHARED is not None),
                          "mode": "sequential", "shared": _SHARED is not None})
                break
        _SHARED = None
        t1 = _tables()
        for k in sorted(set(tables0) | set(t1)):
            if tables0.get(k) != t1.get(k):
                ctx.fail(f"table-modified:{k}", f"module-level table {k} changed during API calls", {"table": k, "mode": "tables"})
        ctx.count("tables", "after-sequential", f"{len(t1)} tables compared")
        # (c) threads
        old = sys.getswitchinterval()
        sys.setswitchinterval(1e-6)
        try:
            for rnd in range(ctx.n(2, 8)):
                nthreads = ctx.rng.choice([2, 3, 4, 8, 16])
                idx = list(range(len(calls)))
                ctx.rng.shuffle(idx)
                idx = idx[: ctx.n(48, 200)]
                chunks = [idx[t::nthreads] for t in range(nthreads)]
                results = {}

                def work(t, chunk, rnd=rnd, results=results):
                    for n, i in enumerate(chunk):
                        results[i] = run_call(calls[i], os.path.join(tmp, f"t{rnd}_{t}_{n}"))

                ths = [threading.Thread(target=work, args=(t, ch)) for t, ch in enumerate(chunks)]
                for th in ths:
                    th.start()
                for th in ths:
                    th.join()
                for i, r in results.items():
                    ok = r == ref[i]
                    ctx.count("threads", [calls[i], nthreads], f"{nthreads}threads/" + ("ok" if ok else "DIFF"))
                    if not ok:
                        ctx.fail(f"interleaving-dependent:{calls[i][0]}:{calls[i][3] if len(calls[i]) > 3 else calls[i][2]}",
                                 f"call {calls[i]} returned {r} under {nthreads} threads but {ref[i]} alone",
                                 {"call": calls[i], "threads": nthreads, "mode": "threads"})
        finally:
            sys.setswitchinterval(old)
        t2 = _tables()
        for k in sorted(set(tables0) | set(t2)):
            if k == "process:warnings.filters":
                # warnings.catch_warnings (used by the API wrapper and by this harness) saves and restores the
                # process-wide filter list without a lock: its state after a threaded phase is CPython's, see ASSUMPTIONS
                continue
            if tables0.get(k) != t2.get(k):
                ctx.fail(f"table-modified:{k}", f"module-level table {k} changed during API calls", {"table": k, "mode": "tables"})
    finally:
        shutil.rmtree(tmp, ignore_errors=True)
        shutil.rmtree(_DEGEN_DIR, ignore_errors=True)


def _rehome(call):
    """Replay: re-create a generated degenerate input the recorded call refers to."""
    if isinstance(call, list) and len(call) > 1 and os.path.basename(str(call[1])) in _degenerate() and "vh-c16-degenerate" in call[1]:
        os.makedirs(_DEGEN_DIR, exist_ok=True)
        p = os.path.join(_DEGEN_DIR, os.path.basename(call[1]))
        with open(p, "w") as fh:
            fh.write(_degenerate()[os.path.basename(call[1])])
        return [call[0], p, *call[2:]]
    return call


def replay(ctx, obj):
    inp = obj["input"]
    tmp = tempfile.mkdtemp(prefix="c16_")
    try:
        if "call" in inp:
            inp["call"] = _rehome(inp["call"])
            inp["history"] = [_rehome(c) for c in inp.get("history", [])]
        if inp.get("mode") == "tables":
            t0 = _tables()
            wat = corpus.DATA / "water.xyz"
            run_call(["convert", str(wat), "xyz", "xyz", False, "c.xyz"], os.path.join(tmp, "c"))
            for p in corpus.files(max_size=60_000)[:40]:
                fmt = corpus.select_fmt(p)
                if fmt:
                    o = corpus.load(p, fmt)
                    if o is not None:
                        for f in corpus.DUMP_ONE:
                            run_call(["dump_one", str(p), fmt, f, True, "x"], os.path.join(tmp, "r"))
            return _tables() != t0
        ref = _fresh(inp["call"])
        global _SHARED
        _SHARED = {} if inp.get("shared") else None
        try:
            for n, c in enumerate(inp.get("history", [])):
                run_call(c, os.path.join(tmp, f"h{n}"))
            return run_call(inp["call"], os.path.join(tmp, "final")) != ref
        finally:
            _SHARED = None
    finally:
        shutil.rmtree(tmp, ignore_errors=True)
