"""C16 — results depend only on the arguments, not on call history or interleaving."""

from __future__ import annotations

import concurrent.futures
import hashlib
import importlib
import json
import os
import pkgutil
import shutil
import subprocess
import sys
import tempfile
import threading
import warnings

import numpy as np

from .. import corpus
from ..effects import write_gen
from ..engine import REPO
from ..snapshot import snap

MODULES = ["Iodata.Props.C16"]
RULE = (
    "pool of API calls (load_one/load_many on corpus files incl. files of the wrong format, dump_one/dump_many of loaded "
    "objects to every format incl. refused ones, write_input) executed (a) each alone in a fresh interpreter = reference, "
    "(b) sequentially in shuffled order with repetitions in one interpreter, (c) on 2-16 threads with switch interval "
    "1e-6 s on distinct output files; every result (sha1 of the deep object snapshot / written bytes / exception class "
    "and message) compared with the reference; deep snapshot of every module-level mutable table of every iodata module "
    "before/after. non-trivial = distinct call in the pool"
)
TRUSTED = [
    "completeness of the static effect analysis harness/vh/effects.py for module-level tables (cross-checked by the "
    "dynamic table snapshots on every run)",
]
ASSUMPTIONS = [
    "delivery of warnings under threads is not covered (warnings.catch_warnings is process-global in CPython 3.12); "
    "returned objects and written bytes are",
    "BLAS/OpenMP pinned to one thread so summation order is not a hidden source of run-to-run differences",
]
TIME_LIMIT = {"quick": 1200, "thorough": 7200}


def translate(ctx):
    write_gen(ctx, REPO)


# ---------------------------------------------------------------------------
def _sha(x) -> str:
    return hashlib.sha1(repr(x).encode()).hexdigest()[:20]


def run_call(call, workdir):
    """Execute one API call; canonical result string (no addresses, tmp paths normalised)."""
    from iodata import dump_many, dump_one, load_many, load_one, write_input

    kind = call[0]
    os.makedirs(workdir, exist_ok=True)
    try:
        with warnings.catch_warnings():
            warnings.simplefilter("ignore")
            if kind == "load_one":
                o = load_one(call[1], fmt=call[2])
                return "obj:" + _sha(snap(o))
            if kind == "load_many":
                frames = list(load_many(call[1], fmt=call[2]))
                return f"objs:{len(frames)}:" + _sha([snap(o) for o in frames])
            src = load_one(call[1], fmt=call[2])
            out = os.path.join(workdir, call[5] if len(call) > 5 else "out")
            if kind == "dump_one":
                dump_one(src, out, fmt=call[3], allow_changes=call[4])
            elif kind == "dump_many":
                dump_many([src, src], out, fmt=call[3], allow_changes=call[4])
            elif kind == "write_input":
                write_input(src, out, fmt=call[3])
            with open(out, "rb") as fh:
                return "bytes:" + hashlib.sha1(fh.read()).hexdigest()[:20]
    except Exception as exc:
        msg = str(exc).replace(workdir, "<TMP>")
        return f"exc:{type(exc).__name__}:{_sha(msg)}"


def _worker_main():
    spec = json.loads(sys.stdin.read())
    tmp = tempfile.mkdtemp(prefix="c16w_")
    try:
        res = [run_call(c, os.path.join(tmp, "w")) for c in spec["calls"]]
    finally:
        shutil.rmtree(tmp, ignore_errors=True)
    print(json.dumps(res))


def _fresh(call):
    env = dict(os.environ)
    here = os.path.dirname(os.path.dirname(os.path.dirname(os.path.abspath(__file__))))
    env["PYTHONPATH"] = here + (os.pathsep + os.environ["IODATA_REPO"] if os.environ.get("IODATA_REPO") else "")
    p = subprocess.run([sys.executable, "-c", "from vh.props.c16 import _worker_main; _worker_main()"],
                       input=json.dumps({"calls": [call]}), capture_output=True, text=True, env=env, timeout=600)
    if p.returncode != 0:
        return "worker-crash:" + p.stderr[-200:]
    return json.loads(p.stdout.strip().splitlines()[-1])[0]


def _pool(ctx):
    rng = ctx.rng
    files = corpus.files(max_size=ctx.n(60_000, 200_000))
    rng.shuffle(files)
    calls = []
    nload = ctx.n(36, 150)
    for p in files[:nload]:
        fmt = corpus.select_fmt(p)
        if fmt is None:
            continue
        calls.append(["load_one", str(p), fmt])
    for p in files[: ctx.n(6, 30)]:
        fmt = corpus.select_fmt(p, "load_many")
        if fmt:
            calls.append(["load_many", str(p), fmt])
    # wrong-format loads (failing calls)
    for p in files[: ctx.n(5, 20)]:
        calls.append(["load_one", str(p), rng.choice(["xyz", "fchk", "molden", "sdf", "wfx"])])
    srcs = [c for c in calls if c[0] == "load_one"][: ctx.n(14, 60)]
    # always include a wavefunction source so that WFX/WFN/Molden writers really run
    for name in ("water_sto3g_hf_g03.fchk", "h2o_sto3g.wfn", "water_dimer_ghost.fchk", "he2_ghost_psi4_1.0.molden"):
        p = corpus.DATA / name
        if p.exists():
            srcs.append(["load_one", str(p), corpus.select_fmt(p)])
    k = 0
    for s in srcs:
        for fmt in rng.sample(corpus.DUMP_ONE, ctx.n(3, 8)) + (["wfx"] if s[1].endswith((".fchk", ".wfn", ".molden")) else []):
            k += 1
            calls.append(["dump_one", s[1], s[2], fmt, rng.random() < 0.5, f"o{k}.{corpus.EXT.get(fmt, fmt)}"])
        if rng.random() < 0.4:
            k += 1
            fmt = rng.choice(corpus.DUMP_MANY)
            calls.append(["dump_many", s[1], s[2], fmt, False, f"m{k}.{fmt}"])
        if rng.random() < 0.4:
            k += 1
            calls.append(["write_input", s[1], s[2], rng.choice(["gaussian", "orca", "nosuchprogram"]), False, f"i{k}.in"])
    # de-duplicate
    seen, out = set(), []
    for c in calls:
        t = json.dumps(c)
        if t not in seen:
            seen.add(t)
            out.append(c)
    return out


def _tables():
    """Deep snapshot of every module-level mutable object of every iodata module."""
    import iodata

    out = {}
    seen_ids = {}
    for mi in sorted(pkgutil.walk_packages(iodata.__path__, "iodata."), key=lambda m: (m.name.count("."), m.name)):
        if ".test" in mi.name:
            continue
        try:
            m = importlib.import_module(mi.name)
        except Exception:
            continue
        for k, v in vars(m).items():
            if k.startswith("__"):
                continue
            if isinstance(v, (dict, list, set, np.ndarray)):
                if id(v) in seen_ids:  # an import alias of a table already listed under its first (shortest) name
                    continue
                seen_ids[id(v)] = f"{mi.name}.{k}"
                try:
                    out[f"{mi.name}.{k}"] = _sha(snap(v)) if not _has_modules(v) else _sha(sorted(map(str, v)))
                except Exception:
                    out[f"{mi.name}.{k}"] = "unsnappable"
            elif isinstance(v, (int, float, str, tuple)):
                out[f"{mi.name}.{k}"] = repr(v)
    return out


def _has_modules(v):
    import types

    return isinstance(v, dict) and any(isinstance(x, types.ModuleType) for x in v.values())


def search(ctx):
    import iodata  # noqa: F401

    calls = _pool(ctx)
    ctx.extra_cov["calls_in_pool"] = len(calls)
    # (a) references: each call alone in a fresh interpreter
    with concurrent.futures.ThreadPoolExecutor(max_workers=14) as ex:
        ref = list(ex.map(_fresh, calls))
    crashed = [c for c, r in zip(calls, ref) if r.startswith("worker-crash")]
    if crashed:
        from ..engine import InfraError

        raise InfraError(f"reference worker crashed for {crashed[:2]}: {[r for r in ref if r.startswith('worker-crash')][:1]}")
    tmp = tempfile.mkdtemp(prefix="c16_")
    tables0 = _tables()
    try:
        # (b) shuffled sequential histories with repetition
        order = list(range(len(calls))) * 2
        ctx.rng.shuffle(order)
        # make sure a WFX dump precedes other dumps at least once (the historical defect)
        wfx = [i for i, c in enumerate(calls) if c[0] == "dump_one" and c[3] == "wfx"]
        order = wfx[:2] + order
        for n, i in enumerate(order):
            r = run_call(calls[i], os.path.join(tmp, f"s{n}"))
            ok = r == ref[i]
            ctx.count("sequential", calls[i], calls[i][0] + ("/ok" if ok else "/DIFF"), sample={"call": calls[i], "result": r})
            if not ok:
                ctx.fail(f"history-dependent:{calls[i][0]}:{calls[i][3] if len(calls[i]) > 3 else calls[i][2]}",
                         f"call {calls[i]} returned {r} after a history of {n} calls but {ref[i]} alone in a fresh interpreter",
                         {"call": calls[i], "history": [calls[j] for j in order[:n]][-40:], "mode": "sequential"})
                break
        t1 = _tables()
        for k in sorted(set(tables0) | set(t1)):
            if tables0.get(k) != t1.get(k):
                ctx.fail(f"table-modified:{k}", f"module-level table {k} changed during API calls", {"table": k, "mode": "tables"})
        ctx.count("tables", "after-sequential", f"{len(t1)} tables compared")
        # (c) threads
        old = sys.getswitchinterval()
        sys.setswitchinterval(1e-6)
        try:
            for rnd in range(ctx.n(2, 8)):
                nthreads = ctx.rng.choice([2, 3, 4, 8, 16])
                idx = list(range(len(calls)))
                ctx.rng.shuffle(idx)
                idx = idx[: ctx.n(48, 200)]
                chunks = [idx[t::nthreads] for t in range(nthreads)]
                results = {}

                def work(t, chunk, rnd=rnd, results=results):
                    for n, i in enumerate(chunk):
                        results[i] = run_call(calls[i], os.path.join(tmp, f"t{rnd}_{t}_{n}"))

                ths = [threading.Thread(target=work, args=(t, ch)) for t, ch in enumerate(chunks)]
                for th in ths:
                    th.start()
                for th in ths:
                    th.join()
                for i, r in results.items():
                    ok = r == ref[i]
                    ctx.count("threads", [calls[i], nthreads], f"{nthreads}threads/" + ("ok" if ok else "DIFF"))
                    if not ok:
                        ctx.fail(f"interleaving-dependent:{calls[i][0]}:{calls[i][3] if len(calls[i]) > 3 else calls[i][2]}",
                                 f"call {calls[i]} returned {r} under {nthreads} threads but {ref[i]} alone",
                                 {"call": calls[i], "threads": nthreads, "mode": "threads"})
        finally:
            sys.setswitchinterval(old)
        t2 = _tables()
        for k in sorted(set(tables0) | set(t2)):
            if tables0.get(k) != t2.get(k):
                ctx.fail(f"table-modified:{k}", f"module-level table {k} changed during API calls", {"table": k, "mode": "tables"})
    finally:
        shutil.rmtree(tmp, ignore_errors=True)


def replay(ctx, obj):
    inp = obj["input"]
    tmp = tempfile.mkdtemp(prefix="c16_")
    try:
        if inp.get("mode") == "tables":
            t0 = _tables()
            for p in corpus.files(max_size=60_000)[:40]:
                fmt = corpus.select_fmt(p)
                if fmt:
                    o = corpus.load(p, fmt)
                    if o is not None:
                        for f in corpus.DUMP_ONE:
                            run_call(["dump_one", str(p), fmt, f, True, "x"], os.path.join(tmp, "r"))
            return _tables() != t0
        ref = _fresh(inp["call"])
        for n, c in enumerate(inp.get("history", [])):
            run_call(c, os.path.join(tmp, f"h{n}"))
        return run_call(inp["call"], os.path.join(tmp, "final")) != ref
    finally:
        shutil.rmtree(tmp, ignore_errors=True)
