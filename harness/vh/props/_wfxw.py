"""WFX section layer against ``Model/Fmt/WfxS.lean``.

(1) Synthetic section lists (text / integer / real / orbital sections of every length around the per-line counts, NaN,
negative numbers, three-digit exponents) are written by ``render()`` — the real ``_write_xml_*`` helpers plus the inline
``print`` statements of ``dump_one`` re-enacted with the same f-strings — and by the model (``render:wfx``); the bytes are
read by the real ``parse_wfx`` and by the model (``parse-low:wfx``); the lines held for the number sections are decoded by
``np.fromstring`` as ``load_data_wfx`` does and by the model (``decode:wfx``).
(2) Real objects through ``dump_one``: the file is cut into sections by ``sections_of()`` (own tokeniser) and the model must
render the same bytes (``dump:wfx``); ``parse_wfx`` on the file against the model (``parse:wfx``); for C15 the object
reloaded by ``load_one`` is written again (``dump-gen2:wfx``) and the discrete sections must be unchanged
(``sections-stable:wfx``).
"""

from __future__ import annotations

import io
import os
import warnings

import numpy as np

from . import _formats as F
from ._adapters import Adapter
from ._fchk import enc_sci, rand_sci, sci_float
from ._wfnw import free_build, sci_txt

MO = "<Molecular Orbital Primitive Coefficients>"
_PER = None


def per_table():
    """items per line of the sections the writer breaks into lines, read from the source like Gen.LayoutsW.wfxL"""
    global _PER
    if _PER is None:
        from ._layoutsw import wfx_layout

        _, pi, pr, pc = wfx_layout()
        _PER = {"<Nuclear Cartesian Coordinates>": pc, "<Primitive Centers>": pi, "<Primitive Types>": pi, "<Primitive Exponents>": pr, MO: pr}
    return _PER


def enc_real(v):
    return "nan" if v is None else enc_sci(v)


def enc_sec(sec) -> str:
    tag, kind, per, val = sec
    if kind == "T":
        p = F.enc_list(val, F.enc_str, "/")
    elif kind == "I":
        p = F.enc_list(val, str, "/")
    elif kind == "R":
        p = F.enc_list(val, enc_real, "/")
    else:
        p = "|".join(F.enc_list(o, enc_real, "/") for o in val) if val else "@"
    return f"{F.enc_str(tag)}:{kind}:{per}:{p}"


def enc_secs(secs) -> str:
    return F.enc_list(secs, enc_sec)


def enc_dict(d) -> str:
    return F.enc_list(list(d.items()), lambda e: F.enc_str(e[0]) + ":" + F.enc_list(e[1], F.enc_str, "/"))


def fl(v):
    return float("nan") if v is None else sci_float(v, 14)


def render(secs) -> bytes:
    from iodata.formats import wfx as M

    f = io.StringIO()
    for tag, kind, per, val in secs:
        if kind == "T":
            M._write_xml_iterator(tag, val, f)
        elif kind == "I" and per == 1 and len(val) == 1:
            M._write_xml_single(tag, val[0], f)
        elif kind == "I" and per == 1:
            M._write_xml_iterator(tag, val, f)
        elif kind == "R" and per == 1 and len(val) == 1:
            M._write_xml_single_scientific(tag, fl(val[0]), f)
        elif kind == "R" and per == 1:
            M._write_xml_iterator_scientific(tag, [fl(v) for v in val], f)
        elif kind == "I":
            print(tag, file=f)
            for j in range(0, len(val), per):
                print(" ".join([f"{c:d}" for c in val[j : j + per]]), file=f)
            print("</" + tag.lstrip("<"), file=f)
        elif kind == "R":
            print(tag, file=f)
            for j in range(0, len(val), per):
                print(" ".join([f"{fl(e): ,.14E}" for e in val[j : j + per]]), file=f)
            print("</" + tag.lstrip("<"), file=f)
        else:
            print(tag, file=f)
            for mo, cs in enumerate(val):
                print("<MO Number>", file=f)
                print(str(mo + 1), file=f)
                print("</MO Number>", file=f)
                for j in range(0, len(cs), per):
                    print(" ".join([f"{fl(c): ,.14E}" for c in cs[j : j + per]]), file=f)
            print("</" + tag.lstrip("<"), file=f)
    return f.getvalue().encode()


def real_parse(raw: bytes):
    from iodata.formats.wfx import parse_wfx
    from iodata.utils import LineIterator

    path = os.path.join(F.tmpdir(), f"x{os.getpid()}.wfx")
    with open(path, "wb") as fh:
        fh.write(raw)
    try:
        with warnings.catch_warnings():
            warnings.simplefilter("ignore")
            with LineIterator(path) as lit:
                return parse_wfx(lit, None)
    finally:
        os.unlink(path)


def parse_line(raw: bytes) -> str:
    try:
        return "ok " + enc_dict(real_parse(raw))
    except Exception:  # noqa: BLE001
        return "err LoadError"


TAGS = ["<Title>", "<Keywords>", "<Number of Nuclei>", "<Primitive Centers>", "<Primitive Types>", "<Primitive Exponents>",
        "<Nuclear Cartesian Coordinates>", "<Net Charge>", "<Nuclear Names>", "<Some Other Section>", "<A>", "<Energy = T + Vne + Vee + Vnn>"]
LENS = [0, 1, 2, 3, 4, 5, 7, 8, 9, 10, 11, 12, 19, 20, 21, 39, 40, 41]


def rand_real(rng):
    r = rng.random()
    if r < 0.06:
        return None
    s = rand_sci(rng, 14)
    if r < 0.12 and s[1] != 0:
        s = (s[0], s[1], rng.choice([100, -100, 307, -300]))
    return s


def gen_secs(rng, i):
    tags = list(TAGS)
    rng.shuffle(tags)
    n = rng.randint(1, 6)
    secs = []
    for k, tag in enumerate(tags[:n]):
        kind = rng.choice(["T", "I", "R", "I1", "R1"])
        ln = LENS[(i + k) % len(LENS)] if rng.random() < 0.6 else rng.randint(0, 25)
        if kind == "T":
            secs.append((tag, "T", 1, [rng.choice(["", " ", "  "]) + (F.rand_title(rng, allow_empty=False).replace("</", "<.")) + rng.choice(["", " "])
                                        for _ in range(min(ln, 6))]))
        elif kind in ("I", "I1"):
            secs.append((tag, "I", 10 if kind == "I" else 1, [rng.choice([0, 1, -1, 7, 56, 999, 10**9, -(10**7)]) for _ in range(ln)]))
        else:
            secs.append((tag, "R", rng.choice([3, 4]) if kind == "R" else 1, [rand_real(rng) for _ in range(ln)]))
    if i % 3 == 0:
        nprim = LENS[i % len(LENS)]
        secs.insert(rng.randint(0, len(secs)), (MO, "M", 4, [[rand_real(rng) for _ in range(nprim)] for _ in range(rng.randint(0, 3) if nprim else 0)]))
    cls = "/".join(sorted({f"{s[1]}{s[2]}:{'0' if not s[3] else 'n%per=' + str(len(s[3]) % s[2]) if s[1] in 'IR' else 'n'}" for s in secs}))
    return secs, cls


def sections_of(raw: bytes):
    """own tokeniser of a real WFX file: the section list in the model's terms"""
    from iodata.formats.wfx import _wfx_labels

    ls, li, lf, lai, laf, lo, _ = _wfx_labels()
    lines = raw.decode().split("\n")
    secs, k = [], 0
    while k < len(lines) and lines[k] != "":
        tag = lines[k]
        close = "</" + tag.lstrip("<")
        body = []
        k += 1
        while lines[k] != close:
            body.append(lines[k])
            k += 1
        k += 1
        per = per_table().get(tag, 1)
        if tag == MO:
            orbs, j = [], 0
            while j < len(body):
                assert body[j] == "<MO Number>" and body[j + 2] == "</MO Number>" and int(body[j + 1]) == len(orbs) + 1
                j += 3
                cs = []
                while j < len(body) and body[j] != "<MO Number>":
                    cs += [None if w == "NAN" else sci_txt(w, 14) for w in body[j].split()]
                    j += 1
                orbs.append(cs)
            secs.append((tag, "M", per, orbs))
        elif tag in li or tag in lai:
            secs.append((tag, "I", per, [int(w) for l in body for w in l.split()]))
        elif tag in lf or tag in laf:
            secs.append((tag, "R", per, [None if w == "NAN" else sci_txt(w, 14) for l in body for w in l.split()]))
        else:
            secs.append((tag, "T", 1, body))
    return secs


class WfxW(Adapter):
    key = "wfx-w"
    fmt = "wfx"

    def pick_natom(self, rng, i, thorough):
        return [1, 2, 3, 4][i % 4] if i < 8 else rng.randint(1, 5)

    def free_spec(self, rng, natom, i):
        return {"seed": rng.getrandbits(48), "natom": natom, "kind": ["restricted", "unrestricted"][i % 2], "spin": "none"}

    def free_class(self, s):
        return f"natom={s['natom']}/{s['kind']}"

    def free_build(self, s):
        import random

        x = free_build(s)
        x.extra.pop("mo_spin", None)
        # the optional WFX sections the writer takes from `extra` (and the gradient): present or absent, zero included
        rng = random.Random(s["seed"] ^ 0x5A5A)
        if rng.random() < 0.7:
            x.extra["num_core_electrons"] = rng.choice([0, 0, 2, 10])
        if rng.random() < 0.5:
            x.extra["nuc_viral"] = rng.choice([0.0, rng.uniform(-3, 3)])
        if rng.random() < 0.5:
            x.extra["full_virial_ratio"] = rng.choice([0.0, 2.0 + rng.uniform(-0.01, 0.01)])
        if rng.random() < 0.4:
            # the loader accepts exactly these (keywords, number of perturbations) pairs
            x.extra["keywords"], x.extra["num_perturbations"] = rng.choice([("GTO", 0), ("GIAO", 3), ("CGST", 6)])
        if rng.random() < 0.5:
            x.atgradient = np.array([[rng.choice([0.0, rng.uniform(-1, 1)]) for _ in range(3)] for _ in range(x.natom)])
        return x

    def compare(self, x, y):
        bad = []
        if not np.array_equal(x.atnums, y.atnums):
            bad.append(("atnums", "differ"))
        if np.abs(x.atcoords - y.atcoords).max() > 1e-13 * max(1.0, np.abs(x.atcoords).max()):
            bad.append(("atcoords", "beyond the 15 printed digits"))
        if x.energy is not None and abs(x.energy - y.energy) > 1e-13 * max(1.0, abs(x.energy)):
            bad.append(("energy", f"{x.energy!r} -> {y.energy!r}"))
        if x.mo.kind != y.mo.kind or x.mo.norb != y.mo.norb:
            bad.append(("mo.kind", f"{x.mo.kind}/{x.mo.norb} -> {y.mo.kind}/{y.mo.norb}"))
        else:
            if np.abs(x.mo.occs - y.mo.occs).max() > 1e-13:
                bad.append(("mo.occs", "orbital occupations differ (or are attached to other orbitals)"))
            if np.abs(x.mo.energies - y.mo.energies).max() > 1e-13 * max(1.0, np.abs(x.mo.energies).max()):
                bad.append(("mo.energies", "orbital energies differ (or are attached to other orbitals)"))
        if (x.title or "<Created with IOData>") != y.title:
            bad.append(("title", f"{x.title!r} -> {y.title!r}"))
        for key in ("num_core_electrons", "nuc_viral", "full_virial_ratio", "num_perturbations", "keywords", "virial_ratio"):
            if key in x.extra and x.extra[key] is not None:
                a, b = x.extra[key], y.extra.get(key)
                same = b is not None and (a == b if isinstance(a, (str, int)) else abs(a - b) <= 1e-13 * max(1.0, abs(a)))
                if not same:
                    bad.append((f"extra.{key}", f"{a!r} -> {b!r}"))
        if x.atgradient is not None:
            if y.atgradient is None or np.abs(x.atgradient - y.atgradient).max() > 1e-13:
                bad.append(("atgradient", "missing or different after reload"))
        return bad


WFXW = WfxW()
REPLAY = {"wfx-w": WFXW}


def corr_synthetic(ctx, n):
    rng = ctx.rng
    req, imp, cls, files = [], [], [], []
    for i in range(n):
        secs, c = gen_secs(rng, i)
        raw = render(secs)
        req.append("fmtw dump wfx - " + enc_secs(secs))
        imp.append("ok " + raw.hex())
        cls.append(c)
        files.append((raw, c))
    ctx.corr("render:wfx", req, imp, None, cls)
    ctx.corr("parse-low:wfx", [f"fmtw parse wfx - {raw.hex() or '@'}" for raw, _ in files], [parse_line(raw) for raw, _ in files], None,
             [c for _, c in files])
    # typed decoding of the lines parse_wfx holds, as load_data_wfx does it
    dreq, dimp, dcls = [], [], []
    for i in range(n):
        secs, _ = gen_secs(rng, i)
        secs = [s for s in secs if s[1] in "IR" and s[3]]
        if not secs:
            continue
        held = real_parse(render(secs))
        for tag, kind, per, val in secs:
            lines = held[tag]
            with warnings.catch_warnings():
                warnings.simplefilter("ignore")
                arr = np.fromstring(" ".join(lines), dtype=int if kind == "I" else float, sep=" ")
            if kind == "I":
                out = "ok " + F.enc_list([int(v) for v in arr], str, "/")
            else:
                from ._fchk import sci_quant

                out = "ok " + F.enc_list([None if v != v else sci_quant(v, 14) for v in arr], enc_real, "/")
            dreq.append(f"fmtw decode{kind} wfx - " + F.enc_list(lines, F.enc_str, "/"))
            dimp.append(out)
            dcls.append(f"{kind}/per={per}/n%per={len(val) % per}")
    ctx.corr("decode:wfx", dreq, dimp, None, dcls)


def corr_real(ctx, n, generations=1):
    rng = ctx.rng
    dreq, dimp, dcls, files = [], [], [], []
    for i in range(n):
        s = WFXW.free_spec(rng, WFXW.pick_natom(rng, i, ctx.thorough), i)
        r = F.real_dump(WFXW.free_build(s), "wfx")
        cls = WFXW.free_class(s)
        if not r.ok:
            dreq.append("fmtw dump wfx - @")
            dimp.append("err " + r.err)
            dcls.append(cls + "/refused")
            continue
        dreq.append("fmtw dump wfx - " + enc_secs(sections_of(r.value)))
        dimp.append("ok " + r.value.hex())
        dcls.append(cls)
        files.append((r.value, cls, s))
    ctx.corr("dump:wfx", dreq, dimp, None, dcls)
    ctx.corr("parse:wfx", [f"fmtw parse wfx - {raw.hex()}" for raw, _, _ in files], [parse_line(raw) for raw, _, _ in files], None,
             [c for _, c, _ in files])
    if generations > 1:
        g2req, g2imp, g2cls = [], [], []
        for raw, cls, spec in files:
            l = F.real_load(raw, "wfx")
            if not l.ok:
                continue
            r2 = F.real_dump(l.value, "wfx")
            if not r2.ok:
                g2req.append("fmtw dump wfx - @")
                g2imp.append("err " + r2.err)
                g2cls.append(cls)
                continue
            g2req.append("fmtw dump wfx - " + enc_secs(sections_of(r2.value)))
            g2imp.append("ok " + r2.value.hex())
            g2cls.append(cls)
            a = {s[0]: s for s in sections_of(raw)}
            b = {s[0]: s for s in sections_of(r2.value)}
            # what the second file must keep exactly: the tag sequence and every section whose content is not the result of
            # floating-point rescaling of the coefficients (C01)
            diff = [t for t in a if t != MO and a[t] != b.get(t)]
            same = list(a) == list(b) and not diff and [len(o) for o in a[MO][3]] == [len(o) for o in b[MO][3]]
            ctx.count("sections-stable:wfx", raw.hex()[:2000], cls + ("" if same else "/FAIL"))
            if not same:
                what = "tags" if list(a) != list(b) else (diff[0] if diff else "orbital-section-shape")
                ctx.fail("wfx-w:gen2-sections:" + what.strip("<>").replace(" ", "-"),
                         f"WFX: section {what} differs between the first and the second generation file",
                         {"kind": "c15", "format": "wfx-w", "spec": spec})
        ctx.corr("dump-gen2:wfx", g2req, g2imp, None, g2cls)


def correspond(ctx):
    if ctx.prop == "C15":
        corr_real(ctx, ctx.n(100, 400), generations=2)
    else:
        corr_synthetic(ctx, ctx.n(200, 800))
        corr_real(ctx, ctx.n(120, 500))


def search(ctx):
    from . import _checks as K

    mult = 3 if ctx.escalated else 1
    if ctx.prop == "C15":
        K.search_c15(ctx, WFXW, ctx.n(100, 400) * mult)
    else:
        K.search_c02(ctx, WFXW, ctx.n(150, 600) * mult)
