"""WFN section layer against ``Model/Fmt/WfnS.lean``.

Two kinds of cases.  (1) Synthetic section-level objects (quantised numbers with boundary classes: values filling their
columns, 1..60 primitives so that every section ends in a ragged line, 1..999 atoms, ``nan`` energy, with/without the
``$MOSPIN`` list) are written by ``render()`` — the tail of ``dump_one`` re-enacted with the REAL ``FMT_*`` templates and the
real ``_dump_helper_section`` — and by the model (``render:wfn``), and read by the real ``load_wfn_low`` and by the model
(``load-low:wfn``).  (2) Real ``IOData`` objects (random Cartesian s/p/d basis, restricted and unrestricted orbitals, with
consistent and with interleaved ``mo_spin`` records) go through ``dump_one``; the file is tokenised by ``parse()`` (an
independent column-free reader of this module) into the section-level object, which the model must render to the same
bytes (``dump:wfn``); ``load_wfn_low`` on the file must agree with the model (``load:wfn``); for C15 the object reloaded by
``load_one`` is written again and must keep the section-level content (``dump-gen2:wfn``, ``sections-stable:wfn``).
"""

from __future__ import annotations

import io
import os
import random
import re
import warnings

import numpy as np

from . import _formats as F
from ._adapters import Adapter
from ._fchk import enc_sci, rand_sci, sci_float, sci_quant


def fx_txt(s: str, d: int):
    """'  -12.34500000' -> (neg, mag) from the digits only"""
    s = s.strip()
    if s == "nan":
        return None
    neg = s.startswith("-")
    a, _, b = s.lstrip("-").partition(".")
    assert len(b) == d, (s, d)
    return (neg, int(a + b))


def sci_txt(s: str, d: int):
    s = s.strip().replace("D", "E")
    neg = s.startswith("-")
    m, _, e = s.lstrip("-").partition("E")
    a, _, b = m.partition(".")
    assert len(a) == 1 and len(b) == d, (s, d)
    return (neg, int(a + b), int(e))


def enc_fxn(v):
    return "nan" if v is None else F.enc_fx(v)


def enc_low(q) -> str:
    return ";".join([
        F.enc_str(q["title"]), F.enc_list(q["atoms"], lambda a: ":".join([str(a[0]), *(F.enc_fx(c) for c in a[1:])])),
        F.enc_list(q["prims"], lambda p: f"{p[0]}:{p[1]}:{enc_sci(p[2])}"),
        F.enc_list(q["mos"], lambda m: f"{F.enc_fx(m[0])}:{F.enc_fx(m[1])}:" + F.enc_list(m[2], enc_sci, "/")),
        enc_fxn(q["energy"]), enc_fxn(q["virial"]), "-" if q["spin"] is None else F.enc_list(q["spin"], str, "/")])


def enc_loaded(t) -> str:
    """the tuple of load_wfn_low, exactly re-quantised"""
    title, atnums, atcoords, icenters, types, expn, numbers, occs, energies, coeffs, energy, virial, spin = t
    fxq = lambda v, d: None if v != v else F.fx_quant(v, d)  # noqa: E731
    return ";".join([
        F.enc_str(title), F.enc_list(range(len(atnums)), lambda k: ":".join([str(int(atnums[k])), *(F.enc_fx(F.fx_quant(c, 8)) for c in atcoords[k])])),
        F.enc_list([int(v) for v in icenters], str, "/"), F.enc_list([int(v) for v in types], str, "/"),
        F.enc_list([sci_quant(v, 7) for v in expn], enc_sci, "/"),
        F.enc_list(range(len(numbers)), lambda k: ":".join([str(int(numbers[k])), F.enc_fx(F.fx_quant(occs[k], 7)), F.enc_fx(F.fx_quant(energies[k], 6)),
                                                            F.enc_list([sci_quant(v, 8) for v in coeffs[:, k]], enc_sci, "/")])),
        enc_fxn(fxq(energy, 12)), enc_fxn(fxq(virial, 8)), F.enc_list([int(v) for v in spin], str, "/")])


def real_low(raw: bytes):
    from iodata.formats.wfn import load_wfn_low
    from iodata.utils import LineIterator

    path = os.path.join(F.tmpdir(), f"w{os.getpid()}.wfn")
    with open(path, "wb") as fh:
        fh.write(raw)
    try:
        with warnings.catch_warnings():
            warnings.simplefilter("ignore")
            with LineIterator(path) as lit:
                return "ok " + enc_loaded(load_wfn_low(lit))
    except Exception as exc:  # noqa: BLE001
        return "err " + (F.err_class(exc) if F.err_class(exc) == "LoadError" else "LoadError")
    finally:
        os.unlink(path)


def render(q) -> bytes:
    """the printing part of dump_one re-enacted with the real templates on a section-level object"""
    from iodata.formats import wfn as M
    from iodata.periodic import num2sym

    f = io.StringIO()
    print(f" {q['title'] if q['title'] else M.DEFAULT_WFN_TTL}", file=f)
    print(M.FMT_NUM.format(len(q["mos"]), len(q["prims"]), len(q["atoms"])), file=f)
    for i, (z, x, y, zz) in enumerate(q["atoms"]):
        print(M.FMT_ATM.format(num2sym[z], i + 1, i + 1, F.fx_float(x, 8), F.fx_float(y, 8), F.fx_float(zz, 8), z), file=f)
    M._dump_helper_section(f, [p[0] + 1 for p in q["prims"]], M.FMT_CNTR, 20, M.STEP_CNTR, 20)
    M._dump_helper_section(f, [p[1] + 1 for p in q["prims"]], M.FMT_TYPE, 20, M.STEP_TYPE, 20)
    M._dump_helper_section(f, [sci_float(p[2], 7) for p in q["prims"]], M.FMT_EXPN, 10, M.STEP_EXPN, 5)
    for i, (occ, en, cs) in enumerate(q["mos"]):
        print(M.FMT_MOS.format(i + 1, 0, F.fx_float(occ, 7), F.fx_float(en, 6)), file=f)
        M._dump_helper_section(f, [sci_float(c, 8) for c in cs], M.FMT_COEF, 0, M.STEP_COEF, 5)
    print("END DATA", file=f)
    nanf = lambda v, d: float("nan") if v is None else F.fx_float(v, d)  # noqa: E731
    print(M.FMT_ENERGY.format(nanf(q["energy"], 12), nanf(q["virial"], 8)), file=f)
    if q["spin"] is not None:
        print(" $MOSPIN $END\n\n", file=f)
        M._dump_helper_section(f, q["spin"], M.FMT_SPIN, 0, M.STEP_SPIN, 40)
    return f.getvalue().encode()


NUM = r"[-+]?\d+\.\d+(?:[ED][-+]\d+)?|nan"


def parse(raw: bytes):
    """independent tokeniser of a WFN file (regular expressions on the text, no column numbers) -> section-level object"""
    from iodata.periodic import sym2num

    lines = raw.decode().split("\n")
    title = lines[0].strip()
    nmo, nprim, nat = (int(v) for v in re.findall(r"\d+", lines[1]))
    k = 2
    atoms = []
    for _ in range(nat):
        m = re.match(r"\s*([A-Za-z]+)\s*(\d+)\s*\(CENTRE\s*(\d+)\)(.*)CHARGE =\s*([\d.]+)", lines[k])
        xyz = re.findall(r"-?\d+\.\d{8}", m.group(4))
        atoms.append((sym2num[m.group(1).title()], *(fx_txt(v, 8) for v in xyz)))
        k += 1

    def ints(head):
        # published record: FORMAT (20X,20I3)
        nonlocal k
        out = []
        while len(out) < nprim:
            assert lines[k].startswith(head), lines[k]
            out += [int(w) for w in re.findall(r"-?\d+", _spaced(lines[k][20:], 3))]
            k += 1
        return out

    cntr = ints("CENTRE ASSIGNMENTS")
    typ = ints("TYPE ASSIGNMENTS")
    expn = []
    while len(expn) < nprim:
        expn += [sci_txt(v, 7) for v in re.findall(NUM, lines[k][len("EXPONENTS"):])]
        k += 1
    mos = []
    for _ in range(nmo):
        m = re.match(r"MO\s*(\d+)\s+MO\s+[\d.]+\s+OCC NO =\s*(-?[\d.]+)\s+ORB\. ENERGY =\s*(-?[\d.]+)", lines[k])
        k += 1
        cs = []
        while len(cs) < nprim:
            cs += [sci_txt(v, 8) for v in re.findall(NUM, lines[k])]
            k += 1
        mos.append((fx_txt(m.group(2), 7), fx_txt(m.group(3), 6), cs))
    assert lines[k] == "END DATA", lines[k]
    m = re.match(r" TOTAL ENERGY =\s*(\S+) THE VIRIAL\(-V/T\)=\s*(\S+)", lines[k + 1])
    energy, virial = fx_txt(m.group(1), 12), fx_txt(m.group(2), 8)
    spin = None
    rest = lines[k + 2:]
    if rest and "$MOSPIN $END" in rest[0]:
        spin = [int(w) for line in rest[1:] for w in re.findall(r"-?\d+", _spaced(line, 2))]
    return {"title": title, "atoms": atoms, "prims": [(c - 1, t - 1, e) for c, t, e in zip(cntr, typ, expn)], "mos": mos,
            "energy": energy, "virial": virial, "spin": spin}


def _spaced(body: str, w: int) -> str:
    """blank-separate touching integer fields of width w ('100101' -> '100 101'); fields never contain inner blanks"""
    body = body.rstrip("\n")
    return " ".join(body[j:j + w] for j in range(0, len(body), w))


# ---------------------------------------------------------------------------------------------
# synthetic section-level objects


def gen_low(rng, i, thorough):
    nat = [1, 2, 3, 9, 10, 11, 99, 100, 101, 999][i] if i < 10 else rng.randint(1, 12)
    nprim = [1, 4, 5, 6, 19, 20, 21, 39, 40, 41, 60][i % 11] if i < 33 else rng.randint(1, 45)
    nmo = [1, 2, 3, 39, 40, 41, 80, 81][i % 8] if (i % 5 == 0 and nprim < 8) else rng.randint(1, 4)
    atoms = [((i * 7 + k) % 118 + 1, *(F.rand_fx(rng, 8, 3, 2) for _ in range(3))) for k in range(nat)]
    prims = [(rng.randrange(nat), rng.randrange(56), (False, *rand_sci(rng, 7)[1:])) for _ in range(nprim)]
    if prims[0][2][1] == 0:
        prims[0] = (prims[0][0], prims[0][1], (False, 12345678, 0))
    mos = [(F.rand_fx(rng, 7, 5, 4), F.rand_fx(rng, 6, 5, 4), [rand_sci(rng, 8) for _ in range(nprim)]) for _ in range(nmo)]
    energy = None if i % 4 == 1 else F.rand_fx(rng, 12, 7, 6)
    virial = None if i % 6 == 2 else F.rand_fx(rng, 8, 4, 3)
    spin = None if i % 3 == 0 else [rng.choice([1, 2, 3]) for _ in range(nmo)]
    q = {"title": F.rand_title(rng), "atoms": atoms, "prims": prims, "mos": mos, "energy": energy, "virial": virial, "spin": spin}
    cls = (f"natom={nat if nat in (1, 2, 3, 9, 10, 11, 99, 100, 101, 999) else 'rand'}/nprim%20={nprim % 20}/nprim%5={nprim % 5}"
           f"/nmo%40={nmo % 40}/energy={'nan' if energy is None else 'num'}/spin={int(spin is not None)}")
    return q, cls


# ---------------------------------------------------------------------------------------------
# real objects


def free_build(s):
    from iodata import IOData
    from iodata.basis import MolecularBasis, Shell
    from iodata.formats.wfn import CONVENTIONS
    from iodata.orbitals import MolecularOrbitals

    rng = random.Random(s["seed"])
    n = s["natom"]
    u = lambda k=1.0: rng.uniform(-1, 1) * k  # noqa: E731
    shells = []
    for a in range(n):
        for _ in range(rng.randint(1, 2)):
            l = rng.choice([0, 0, 1, 2])
            ne = rng.randint(1, 3)
            shells.append(Shell(a, [l], ["c"], np.array([rng.uniform(0.05, 50) for _ in range(ne)]), np.array([[u()] for _ in range(ne)])))
    obasis = MolecularBasis(shells, CONVENTIONS, "L2")
    nb = obasis.nbasis
    norb = rng.randint(1, min(nb, 6))
    kind = s["kind"]
    extra = {}
    if kind == "restricted":
        nel = rng.randint(1, norb)
        mo = MolecularOrbitals("restricted", norb, norb, np.array([2.0] * nel + [0.0] * (norb - nel)),
                               np.array([[u() for _ in range(norb)] for _ in range(nb)]), np.array(sorted(u(5) for _ in range(norb))))
        if s["spin"] != "none":
            extra["mo_spin"] = np.array([3] * norb)
    else:
        na, nbeta = rng.randint(1, norb), rng.randint(1, norb)
        occs = np.array([1.0] * na + [0.0] * (norb - na) + [1.0] * min(nbeta, norb) + [0.0] * (norb - min(nbeta, norb)))
        mo = MolecularOrbitals("unrestricted", norb, norb, occs, np.array([[u() for _ in range(2 * norb)] for _ in range(nb)]),
                               np.array(sorted(u(5) for _ in range(norb)) + sorted(u(5) for _ in range(norb))))
        if s["spin"] == "consistent":
            extra["mo_spin"] = np.array([1] * norb + [2] * norb)
        elif s["spin"] == "interleaved":
            extra["mo_spin"] = np.array([1, 2] * norb)
    if rng.random() < 0.6:
        extra["virial_ratio"] = 2.0 + u(0.01)
    return IOData(title=F.rand_title(rng) or None, atnums=np.array([rng.randint(1, 118) for _ in range(n)]),
                  atcoords=np.array([[u(20) for _ in range(3)] for _ in range(n)]), obasis=obasis, mo=mo,
                  energy=None if rng.random() < 0.2 else u(1000), extra=extra)


class WfnW(Adapter):
    key = "wfn-w"
    fmt = "wfn"

    def pick_natom(self, rng, i, thorough):
        return [1, 2, 3, 4][i % 4] if i < 8 else rng.randint(1, 5)

    def free_spec(self, rng, natom, i):
        kind = ["restricted", "unrestricted"][i % 2]
        spin = ["none", "consistent", "interleaved"][(i // 2) % 3] if kind == "unrestricted" else ["none", "consistent"][(i // 2) % 2]
        return {"seed": rng.getrandbits(48), "natom": natom, "kind": kind, "spin": spin}

    def free_class(self, s):
        return f"natom={s['natom']}/{s['kind']}/spin={s['spin']}"

    def free_build(self, s):
        return free_build(s)

    def compare(self, x, y):
        bad = []
        if not np.array_equal(x.atnums, y.atnums):
            bad.append(("atnums", "differ"))
        if np.abs(x.atcoords - y.atcoords).max() > 0.5000001e-8:
            bad.append(("atcoords", "beyond the 8 printed decimals"))
        if x.energy is not None and abs(x.energy - y.energy) > 0.5000001e-12 + 2e-16 * abs(x.energy):
            bad.append(("energy", f"{x.energy!r} -> {y.energy!r}"))
        if y.mo.kind != x.mo.kind and not (x.mo.kind == "restricted" and "mo_spin" not in x.extra):
            bad.append(("mo.kind", f"{x.mo.kind} -> {y.mo.kind}"))
        if x.mo.norb != y.mo.norb:
            bad.append(("mo.norb", f"{x.mo.norb} -> {y.mo.norb}"))
        else:
            if np.abs(x.mo.occs - y.mo.occs).max() > 0.5000001e-7:
                bad.append(("mo.occs", "orbital occupations differ (or are attached to other orbitals)"))
            if np.abs(x.mo.energies - y.mo.energies).max() > 0.5000001e-6:
                bad.append(("mo.energies", "orbital energies differ (or are attached to other orbitals)"))
        if "mo_spin" in x.extra and not np.array_equal(x.extra["mo_spin"], y.extra.get("mo_spin")):
            bad.append(("extra.mo_spin", "differs"))
        if (x.title or "WFN auto-generated by IOData") != y.title:
            bad.append(("title", f"{x.title!r} -> {y.title!r}"))
        return bad


WFNW = WfnW()
REPLAY = {"wfn-w": WFNW}


def corr_synthetic(ctx, n):
    rng = ctx.rng
    req, imp, cls, loads = [], [], [], []
    for i in range(n):
        q, c = gen_low(rng, i, ctx.thorough)
        raw = render(q)
        req.append("fmtw dump wfn - " + enc_low(q))
        imp.append("ok " + raw.hex())
        cls.append(c)
        loads.append((raw, c))
    ctx.corr("render:wfn", req, imp, None, cls)
    ctx.corr("load-low:wfn", [f"fmtw load wfn - {raw.hex()}" for raw, _ in loads], [real_low(raw) for raw, _ in loads], None,
             [c for _, c in loads])


def corr_real(ctx, n, generations=1):
    rng = ctx.rng
    dreq, dimp, dcls, files = [], [], [], []
    for i in range(n):
        s = WFNW.free_spec(rng, WFNW.pick_natom(rng, i, ctx.thorough), i)
        x = free_build(s)
        r = F.real_dump(x, "wfn")
        cls = WFNW.free_class(s)
        if not r.ok:
            dreq.append("fmtw dump wfn - " + enc_low({"title": "", "atoms": [], "prims": [], "mos": [], "energy": None, "virial": None, "spin": None}))
            dimp.append("err " + r.err)
            dcls.append(cls + "/refused")
            continue
        dreq.append("fmtw dump wfn - " + enc_low(parse(r.value)))
        dimp.append("ok " + r.value.hex())
        dcls.append(cls)
        files.append((r.value, cls, s))
    ctx.corr("dump:wfn", dreq, dimp, None, dcls)
    ctx.corr("load:wfn", [f"fmtw load wfn - {raw.hex()}" for raw, _, _ in files], [real_low(raw) for raw, _, _ in files], None,
             [c for _, c, _ in files])
    if generations > 1:
        g2req, g2imp, g2cls = [], [], []
        for raw, cls, spec in files:
            l = F.real_load(raw, "wfn")
            if not l.ok:
                continue
            r2 = F.real_dump(l.value, "wfn")
            if not r2.ok:
                g2req.append("fmtw dump wfn - " + enc_low(parse(raw)))
                g2imp.append("err " + r2.err)
                g2cls.append(cls)
                continue
            g2req.append("fmtw dump wfn - " + enc_low(parse(r2.value)))
            g2imp.append("ok " + r2.value.hex())
            g2cls.append(cls)
            # the section-level content the second file must keep: atoms, primitives, order/occupation/energy of the
            # orbitals, the spin list (coefficients: the normalisation factors are applied in floating point, C01)
            a, b = parse(raw), parse(r2.value)
            keep = lambda q: (q["atoms"], [(p[0], p[1], p[2]) for p in q["prims"]], [(m[0], m[1]) for m in q["mos"]], q["spin"], q["energy"])  # noqa: E731
            same = keep(a) == keep(b)
            ctx.count("sections-stable:wfn", raw.hex()[:2000], cls + ("" if same else "/FAIL"))
            if not same:
                what = next(n for n, u, v in zip(["atoms", "primitives", "orbital order/occupations/energies", "mo_spin", "energy"], keep(a), keep(b)) if u != v)
                ctx.fail("wfn-w:gen2-sections:" + what.split("/")[0].replace(" ", "-"),
                         f"WFN: {what} differ between the first and the second generation file", {"kind": "c15", "format": "wfn-w", "spec": spec})
        ctx.corr("dump-gen2:wfn", g2req, g2imp, None, g2cls)


def correspond(ctx):
    if ctx.prop == "C15":
        corr_real(ctx, ctx.n(120, 500), generations=2)
    else:
        corr_synthetic(ctx, ctx.n(200, 800))
        corr_real(ctx, ctx.n(150, 600))


def search(ctx):
    from . import _checks as K

    mult = 3 if ctx.escalated else 1
    if ctx.prop == "C15":
        K.search_c15(ctx, WFNW, ctx.n(120, 500) * mult)
    else:
        K.search_c02(ctx, WFNW, ctx.n(200, 800) * mult)
