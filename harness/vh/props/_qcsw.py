"""QCSchema JSON molecule core against ``Model/Fmt/Qcs.lean`` at the level of the JSON dictionary.

The real ``dump_one`` writes a file; ``json.loads`` of it (the standard library, trusted) is compared key by key with the
dictionary the model writes (``dump:json``); the object ``load_one`` returns for the file is compared attribute by attribute
with the model's ``load`` on that dictionary (``load:json``); for C15 the reloaded object is saved again
(``dump-gen2:json``) and the provenance trail must be the only thing that differs between the reloads, one entry longer
per cycle (``provenance-only:json``).  Numbers are exact (``float.as_integer_ratio``); values the code passes through are
compared as canonical JSON text.
"""

from __future__ import annotations

import json
from fractions import Fraction

import numpy as np

from . import _formats as F
from ._adapters import Adapter

PASS = ["qcel_validated", "identifiers", "comment", "atom_labels", "atomic_numbers", "fix_com", "fix_orientation", "id", "extras"]
PASS_KEY = {"qcel_validated": "validated"}
KIND = {"symbols": "S", "geometry": "Q", "molecular_charge": "q", "molecular_multiplicity": "q", "name": "s", "real": "B", "masses": "Q",
        "connectivity": "T", "fix_symmetry": "q", "schema_name": "s", "schema_version": "q"}


def new_prov():
    import iodata

    return {"creator": "IOData", "version": iodata.__version__, "routine": "iodata.formats.json.dump_one"}


def canon(v):
    if isinstance(v, np.ndarray):
        v = v.tolist()
    if v == new_prov():
        return "IOData:dump_one"
    return json.dumps(v, sort_keys=True, separators=(",", ":"), default=lambda o: o.tolist() if isinstance(o, np.ndarray) else str(o))


def enc_q(x):
    if isinstance(x, bool):
        raise TypeError("bool is not a number here")
    if isinstance(x, int | np.integer):
        return f"I{int(x)}_1"
    fr = Fraction(float(x))
    return f"F{fr.numerator}_{fr.denominator}"


def enc_v(kind, v):
    if kind == "q":
        return "q:" + enc_q(v)
    if kind == "s":
        return "s:" + F.enc_str(v)
    if kind == "Q":
        return "Q:" + F.enc_list(v, enc_q, "|")
    if kind == "S":
        return "S:" + F.enc_list(v, F.enc_str, "|")
    if kind == "B":
        return "B:" + F.enc_list(v, lambda b: "1" if b else "0", "|")
    if kind == "T":
        return "T:" + F.enc_list(v, lambda t: ".".join(str(int(x)) for x in t), "|")
    if kind == "R":
        return "R:" + F.enc_list(v, lambda e: F.enc_str(canon(e)), "|")
    return "r:" + F.enc_str(canon(v))


def enc_file(d: dict) -> str:
    es = []
    for k, v in d.items():
        kind = KIND.get(k) or ("R" if k == "provenance" and isinstance(v, list) else "r")
        es.append(F.enc_str(k) + "=" + enc_v(kind, v))
    return ",".join(sorted(es)) if es else "@"


def enc_opt(f, v):
    return "-" if v is None else f(v)


def enc_pairs(d: dict) -> str:
    es = sorted(F.enc_str(k) + "=" + F.enc_str(canon(v)) for k, v in d.items())
    return ",".join(es) if es else "@"


def enc_prov(p):
    if p is None:
        return "-"
    if isinstance(p, dict):
        return "1:" + F.enc_str(canon(p))
    return "m:" + F.enc_list(p, lambda e: F.enc_str(canon(e)), "|")


def enc_mol(q) -> str:
    lst = lambda xs: F.enc_list(xs, enc_q, "|")  # noqa: E731
    trip = lambda bs: F.enc_list(bs, lambda t: ".".join(str(int(x)) for x in t), "|")  # noqa: E731
    return ";".join([F.enc_list(q["atnums"], str, "|"), lst(q["atcoords"]), enc_opt(enc_q, q["charge"]), enc_opt(enc_q, q["spinpol"]),
                     enc_opt(F.enc_str, q["title"]), lst(q["atcorenums"]), enc_opt(lst, q["atmasses"]), enc_opt(trip, q["bonds"]),
                     enc_opt(enc_q, q["g_rot"]), enc_pairs(q["extra"]), enc_prov(q["prov"]), enc_pairs(q["unparsed"])])


def mol_of(d):
    """the modelled attributes of an IOData object"""
    ex = d.extra.get("molecule", {})
    return {"atnums": [int(z) for z in d.atnums], "atcoords": list(d.atcoords.ravel()), "charge": d.charge, "spinpol": d.spinpol,
            "title": d.title, "atcorenums": list(d.atcorenums), "atmasses": None if d.atmasses is None else list(d.atmasses),
            "bonds": None if d.bonds is None else [tuple(int(x) for x in b) for b in d.bonds], "g_rot": d.g_rot,
            "extra": {k: ex[k] for k in PASS if k in ex}, "prov": ex.get("provenance"), "unparsed": dict(ex.get("unparsed", {}))}


def enc_loaded(d) -> str:
    q = mol_of(d)
    lst = lambda xs: F.enc_list(xs, enc_q, "|")  # noqa: E731
    trip = lambda bs: F.enc_list(bs, lambda t: ".".join(str(int(x)) for x in t), "|")  # noqa: E731
    ex = d.extra["molecule"]
    return ";".join([F.enc_list(q["atnums"], str, "|"), lst(q["atcoords"]), enc_q(d.charge), enc_q(d.spinpol), enc_q(d.nelec),
                     enc_opt(F.enc_str, q["title"]), lst(q["atcorenums"]), enc_opt(lst, q["atmasses"]), enc_opt(trip, q["bonds"]),
                     enc_opt(enc_q, q["g_rot"]), enc_opt(lambda v: "q:" + enc_q(v), ex.get("schema_version")), enc_pairs(q["extra"]),
                     enc_prov(q["prov"]), enc_pairs(q["unparsed"])])


VALUES = ["text", 7, 2.5, True, [1, 2, 3], {"a": 1, "b": [True, "x"]}, [], "x y"]


class QcsW(Adapter):
    key = "json"
    fmt = "json_qcschema"

    def pick_natom(self, rng, i, thorough):
        return [1, 2, 3, 9, 10, 11, 100][i] if i < 7 else rng.randint(1, 12)

    def gen(self, rng, natom, i):
        atnums = [rng.randint(1, 118) for _ in range(natom)]
        core = [float(z) for z in atnums]
        for k in range(natom):
            r = rng.random()
            if r < 0.15:
                core[k] = 0.0            # ghost atom
            elif r < 0.3 and atnums[k] > 10:
                core[k] = float(atnums[k] - 10)   # pseudo-potential core charge
        q = {
            "atnums": atnums, "atcoords": [rng.uniform(-20, 20) * rng.choice([1.0, 1e-8, 1e5]) for _ in range(3 * natom)],
            "charge": rng.choice([0, -1, 2, 0.0, 1.0, -0.5, 2.25]), "spinpol": rng.choice([0, 1, 3, 0.0, 2.0, 0.5]),
            "title": rng.choice([None, "", F.rand_title(rng, allow_empty=False)]), "atcorenums": core,
            "atmasses": None if rng.random() < 0.5 else [rng.uniform(1, 300) for _ in range(natom)],
            "bonds": None if rng.random() < 0.5 or natom < 2 else [(rng.randrange(natom), rng.randrange(natom), rng.randint(1, 3)) for _ in range(rng.randint(0, 4))],
            "g_rot": rng.choice([None, 0, 1, 2, 12, 1.0]),
            "extra": {k: rng.choice(VALUES) for k in PASS if rng.random() < 0.3},
            "prov": rng.choice([None, {"creator": "me", "v": 1}, [{"creator": "a"}, {"creator": "b", "x": [1]}], [{"creator": "solo"}]]),
            "unparsed": {k: rng.choice(VALUES) for k in ["my_key", "zz top", "Extras2"] if rng.random() < 0.3},
        }
        if "atomic_numbers" in q["extra"]:
            q["extra"]["atomic_numbers"] = list(atnums)
        cls = (f"natom={natom if natom in (1, 2, 3, 9, 10, 11, 100) else 'rand'}/charge={type(q['charge']).__name__}/spin={type(q['spinpol']).__name__}"
               f"/ghost={int(0.0 in core)}/prov={'none' if q['prov'] is None else type(q['prov']).__name__}/pass={len(q['extra'])}/unparsed={len(q['unparsed'])}")
        return q, "-", cls

    def build(self, q, opts="-"):
        from iodata import IOData

        n = len(q["atnums"])
        mol = {k: (np.array(v) if k == "atomic_numbers" else v) for k, v in q["extra"].items()}
        if q["prov"] is not None:
            mol["provenance"] = json.loads(json.dumps(q["prov"]))
        if q["unparsed"]:
            mol["unparsed"] = dict(q["unparsed"])
        kw = {"atnums": np.array(q["atnums"]), "atcoords": np.array(q["atcoords"]).reshape(n, 3), "atcorenums": np.array(q["atcorenums"]),
              "extra": {"schema_name": "qcschema_molecule", "molecule": mol}}
        for a, k in (("charge", "charge"), ("spinpol", "spinpol"), ("title", "title"), ("g_rot", "g_rot")):
            if q[k] is not None:
                kw[a] = q[k]
        if q["atmasses"] is not None:
            kw["atmasses"] = np.array(q["atmasses"])
        if q["bonds"] is not None:
            kw["bonds"] = np.array(q["bonds"], int).reshape(-1, 3)
        return IOData(**kw)

    # ---- search ----
    def free_spec(self, rng, natom, i):
        return {"seed": rng.getrandbits(48), "natom": natom, "i": i}

    def free_class(self, s):
        return f"natom={s['natom']}"

    def free_build(self, s):
        import random

        q, _, _ = self.gen(random.Random(s["seed"]), s["natom"], s["i"])
        return self.build(q)

    def known_cause(self, x):
        return "empty-bonds" if x.bonds is not None and len(x.bonds) == 0 else None

    def compare(self, x, y):
        bad = []
        if not np.array_equal(x.atnums, y.atnums):
            bad.append(("atnums", "differ"))
        if not np.array_equal(x.atcoords, y.atcoords):
            bad.append(("atcoords", "not bit-identical (JSON numbers are exact)"))
        if x.charge is not None and x.charge != y.charge:
            bad.append(("charge", f"{x.charge!r} -> {y.charge!r}"))
        if x.spinpol is not None and x.spinpol != y.spinpol:
            bad.append(("spinpol", f"{x.spinpol!r} -> {y.spinpol!r}"))
        if (x.title or None) != y.title:
            bad.append(("title", f"{x.title!r} -> {y.title!r}"))
        if x.atmasses is not None and not np.array_equal(x.atmasses, y.atmasses):
            bad.append(("atmasses", "differ"))
        if x.bonds is not None and not np.array_equal(x.bonds, y.bonds):
            bad.append(("bonds", "differ"))
        if not np.array_equal(x.atcorenums != 0, y.atcorenums != 0):
            bad.append(("atcorenums", "ghost atoms differ"))
        ex, ey = x.extra["molecule"], y.extra["molecule"]
        for k in PASS:
            if k in ex and canon(ex[k]) != canon(ey.get(k)):
                bad.append(("extra." + k, "passed-through value differs"))
        if canon(ex.get("unparsed", {})) != canon(ey.get("unparsed", {})):
            bad.append(("extra.unparsed", "differs"))
        return bad


QCSW = QcsW()


def corr(ctx, n, generations=1):
    ad = QCSW
    rng = ctx.rng
    dreq, dimp, dcls, files = [], [], [], []
    for i in range(n):
        q, _, cls = ad.gen(rng, ad.pick_natom(rng, i, ctx.thorough), i)
        data = ad.build(q)
        r = F.real_dump(data, "json_qcschema")
        dreq.append("fmtw dump json - " + enc_mol(mol_of(data)))   # the attributes as IOData holds them (charge is a float there)
        dimp.append("ok " + enc_file(json.loads(r.value)) if r.ok else "err " + r.err)
        dcls.append(cls + ("" if r.ok else "/refused"))
        if r.ok:
            files.append((r.value, cls))
    ctx.corr("dump:json", dreq, dimp, None, dcls)
    lreq, limp, second = [], [], []
    for raw, cls in files:
        l = F.real_load(raw, "json_qcschema")
        lreq.append("fmtw load json - " + enc_file(json.loads(raw)))
        limp.append("ok " + enc_loaded(l.value) if l.ok else "err " + l.err)
        if l.ok:
            second.append((l.value, cls))
    ctx.corr("load:json", lreq, limp, None, [c for _, c in files])
    if generations > 1:
        g2req, g2imp, g2cls = [], [], []
        for x1, cls in second:
            r2 = F.real_dump(x1, "json_qcschema")
            g2req.append("fmtw dump json - " + enc_mol(mol_of(x1)))
            g2imp.append("ok " + enc_file(json.loads(r2.value)) if r2.ok else "err " + r2.err)
            g2cls.append(cls)
            if not r2.ok:
                continue
            l2 = F.real_load(r2.value, "json_qcschema")
            ok = l2.ok
            what = "second reload fails"
            if ok:
                a, b = mol_of(x1), mol_of(l2.value)
                pa, pb = a.pop("prov"), b.pop("prov")
                la = 0 if pa is None else 1 if isinstance(pa, dict) else len(pa)
                lb = 0 if pb is None else 1 if isinstance(pb, dict) else len(pb)
                same = canon({k: (v if not isinstance(v, list) else [float(t) if isinstance(t, np.floating) else t for t in v]) for k, v in a.items()}) == \
                    canon({k: (v if not isinstance(v, list) else [float(t) if isinstance(t, np.floating) else t for t in v]) for k, v in b.items()})
                ok = same and lb == la + 1 and x1.charge == l2.value.charge and x1.spinpol == l2.value.spinpol and x1.nelec == l2.value.nelec
                what = "an attribute other than the provenance trail differs between reload 1 and 2" if not same else \
                    f"the provenance trail has {lb} entries after {la}" if lb != la + 1 else "charge/spinpol/nelec differ"
            ctx.count("provenance-only:json", enc_mol(mol_of(x1))[:2000], cls + ("" if ok else "/FAIL"))
            if not ok:
                ctx.fail("json-w:gen2:" + what.split(" ")[0] + "-" + what.split(" ")[1], "QCSchema: " + what,
                         {"kind": "c15", "format": "json-w", "spec": None})
        ctx.corr("dump-gen2:json", g2req, g2imp, None, g2cls)


def correspond(ctx):
    if ctx.prop == "C15":
        corr(ctx, ctx.n(150, 600), generations=2)
    else:
        corr(ctx, ctx.n(400, 1500))


class _Tag:
    def __init__(self, ad):
        self._ad = ad
        self.key, self.fmt = "json-w", "json_qcschema"

    def __getattr__(self, name):
        return getattr(self._ad, name)


REPLAY = {"json-w": _Tag(QCSW)}


def search(ctx):
    from . import _checks as K

    if ctx.prop == "C02":
        K.search_c02(ctx, _Tag(QCSW), ctx.n(300, 1200) * (3 if ctx.escalated else 1))
