"""C10 — convention conversion is an exact signed permutation."""

from __future__ import annotations

import itertools

import numpy as np

from ..engine import lean_list, lean_str

MODULES = ["Iodata.Props.C10"]
RULE = (
    "conv: random shell conventions (random permutation + sign flips of the HORTON2 entry, l<=9, both kinds), "
    "built-in table pairs and corrupted variants (dropped/duplicated/replaced/double-dashed labels, unequal lengths), "
    "both directions; convb: random bases (1-12 shells, 1-4 contractions) with random tables incl. missing keys. "
    "non-trivial = the request is distinct and its permutation is not the identity, or has a sign flip, or is rejected"
)
TRUSTED = [
    "label extraction: CONVENTIONS dicts are read from the imported modules; the ORCA table by calling "
    "_fix_obasis_orca on an empty basis",
]
ASSUMPTIONS = [
    "Python str.startswith/lstrip/list.index/set semantics as transcribed in Model/Conv.lean",
    "numpy fancy indexing vector[permutation]*signs equals Conv.apply",
]


def _tables():
    import iodata.convert as cv
    from iodata.basis import MolecularBasis
    from iodata.formats import cp2klog, fchk, molden, molekel, mwfn, wfn, wfx

    tabs = {
        "horton2": {k: v for k, v in cv.HORTON2_CONVENTIONS.items() if k[0] <= 9},
        "cca": {k: v for k, v in cv.CCA_CONVENTIONS.items() if k[0] <= 9},
        "fchk": fchk.CONVENTIONS,
        "molden": molden.CONVENTIONS,
        "molekel": molekel.CONVENTIONS,
        "wfn": wfn.CONVENTIONS,
        "wfx": wfx.CONVENTIONS,
        "mwfn": mwfn.CONVENTIONS,
        "cp2klog": cp2klog.CONVENTIONS,
        "orca_fix": molden._fix_obasis_orca(MolecularBasis([], {}, "L2")).conventions,
    }
    return {n: {k: list(v) for k, v in t.items()} for n, t in tabs.items()}


def _lean_chars(s):
    assert all(32 < ord(c) < 127 and c not in "'\\" for c in s), s
    return "[" + ",".join(f"'{c}'" for c in s) + "]"


def _lean_table(t):
    ents = []
    for (l, kind), labels in sorted(t.items()):
        ents.append(f"(({l}, '{kind}'), {lean_list(labels, _lean_chars)})")
    return "[" + ",\n    ".join(ents) + "]"


def translate(ctx):
    tabs = _tables()
    body = ["import Iodata.Model.Conv", "namespace Iodata.Gen.Conventions", "open Iodata.Conv", ""]
    for n, t in tabs.items():
        body.append(f"def {n} : Table :=\n   {_lean_table(t)}\n")
    body.append("def allTables : List (String × Table) :=\n  [" + ", ".join(f'("{n}", {n})' for n in tabs) + "]")
    # the two generated default tables in full (l = 0..24): compared with their closed forms by default_tables_closed_form
    import iodata.convert as cv

    for n, t in (("horton2Full", cv.HORTON2_CONVENTIONS), ("ccaFull", cv.CCA_CONVENTIONS)):
        body.append(f"\ndef {n} : Table :=\n   {_lean_table({k: list(v) for k, v in t.items()})}")
    body.append("\nend Iodata.Gen.Conventions\n")
    ctx.gen_write("Conventions", "\n".join(body))


# --------------------------------------------------------------------------
def _enc_list(ls):
    return ",".join(ls) if ls else "@"


def _enc_table(t):
    if not t:
        return "@"
    return ";".join(f"{l}{k}=" + _enc_list(v) for (l, k), v in t.items())


def _classify(exc):
    if isinstance(exc, KeyError):
        return "err KeyError"
    if isinstance(exc, ValueError):
        m = str(exc)
        if m.startswith("conv1 and conv2 must contain the same number"):
            return "err ValueError:len"
        if m.startswith("Argument conv1 contains duplicates"):
            return "err ValueError:dup1"
        if m.startswith("Argument conv2 contains duplicates"):
            return "err ValueError:dup2"
        if m.startswith("Without the minus signs"):
            return "err ValueError:set"
        return "err ValueError:other"
    return "err Other:" + type(exc).__name__


def _show(perm, signs):
    return "ok " + ",".join(f"{int(p)}:{int(s)}" for p, s in zip(perm, signs))


def impl_shell(c1, c2, rev):
    from iodata.convert import _convert_convention_shell

    try:
        p, s = _convert_convention_shell(list(c1), list(c2), rev)
    except Exception as exc:
        return _classify(exc)
    return _show(p, s)


def impl_basis(keys_per_shell, t1, t2, rev):
    from iodata.basis import MolecularBasis, Shell
    from iodata.convert import convert_conventions

    shells = []
    for i, ks in enumerate(keys_per_shell):
        n = len(ks)
        shells.append(Shell(i % 3, np.array([k[0] for k in ks]), [k[1] for k in ks], np.ones(2), np.ones((2, n))))
    try:
        p, s = convert_conventions(MolecularBasis(shells, t1, "L2"), t2, rev)
    except Exception as exc:
        return _classify(exc)
    return _show(p, s)


def _rand_conv(rng, base):
    c = list(base)
    rng.shuffle(c)
    return [("-" + x if rng.random() < 0.3 else x) for x in c]


def _corrupt(rng, c, kind=None):
    c = list(c)
    kind = kind or rng.choice(["drop", "dup", "dupsign", "dupsign", "replace", "dd", "add", "dash", "none"])
    if not c:
        return c + ["q"]
    i = rng.randrange(len(c))
    if kind == "drop":
        del c[i]
    elif kind == "dup":
        c[i] = c[rng.randrange(len(c))].lstrip("-") if rng.random() < 0.5 else c[rng.randrange(len(c))]
    elif kind == "dupsign" and len(c) > 1:
        # a duplicate whose two copies differ in sign ('x' and '-x')
        j = rng.choice([k for k in range(len(c)) if k != i])
        base = c[j].lstrip("-")
        c[i] = base if c[j].startswith("-") else "-" + base
    elif kind == "replace":
        c[i] = rng.choice(["qq", "c77", "-s77", "x"])
    elif kind == "dd":
        c[i] = "--" + c[i].lstrip("-")
    elif kind == "add":
        c.insert(i, rng.choice(["q", "-q"]))
    elif kind == "dash":
        c[i] = "-"
    return c


def _shell_cases(ctx, tabs):
    rng = ctx.rng
    h2 = tabs["horton2"]
    keys = sorted(h2)
    cases = []
    # every ordered pair of built-in tables on shared keys (exhaustive)
    for a, b in itertools.product(tabs, repeat=2):
        for k in tabs[a]:
            if k in tabs[b]:
                for rev in (False, True):
                    cases.append((tabs[a][k], tabs[b][k], rev, "builtin-pair"))
    n = ctx.n(1500, 40000)
    for _ in range(n):
        k = rng.choice(keys if rng.random() < 0.5 else [kk for kk in keys if kk[0] <= 4])
        c1 = _rand_conv(rng, h2[k])
        c2 = _rand_conv(rng, h2[k])
        r = rng.random()
        cls = "random-compatible"
        if r < 0.15:
            c2 = _corrupt(rng, c2)
            cls = "corrupt2"
        elif r < 0.3:
            c1 = _corrupt(rng, c1)
            cls = "corrupt1"
        elif r < 0.35:
            c1, c2 = _corrupt(rng, c1), _corrupt(rng, c2)
            cls = "corrupt-both"
        elif r < 0.42:
            c1, c2 = _corrupt(rng, c1, "dupsign"), _corrupt(rng, c2, "dupsign")
            cls = "corrupt-both-dupsign"
        cases.append((c1, c2, rng.random() < 0.4, cls))
    # all single-label corruptions of one built-in table per run
    tname = rng.choice(sorted(tabs))
    for k, c in tabs[tname].items():
        for i in range(len(c)):
            for new in (None, c[(i + 1) % len(c)], "zz9", "-" + c[i].lstrip("-") if not c[i].startswith("-") else c[i][1:]):
                cc = list(c)
                if new is None:
                    del cc[i]
                else:
                    cc[i] = new
                cases.append((c, cc, False, "single-corruption"))
    cases.append(([], [], False, "empty"))
    return cases


def correspond(ctx):
    tabs = _tables()
    cases = _shell_cases(ctx, tabs)
    reqs, outs, nontriv, classes = [], [], [], []
    for c1, c2, rev, cls in cases:
        if any((" " in x or "," in x or x == "" or x == "@") for x in c1 + c2):
            continue
        reqs.append(f"conv {int(rev)} {_enc_list(c1)} {_enc_list(c2)}")
        o = impl_shell(c1, c2, rev)
        outs.append(o)
        ident = o.startswith("ok") and all(
            f"{i}:1" == t for i, t in enumerate(o[3:].split(",") if len(o) > 3 else [])
        )
        nontriv.append(not ident)
        classes.append(cls + ("/rejected" if o.startswith("err") else "/ok"))
    ctx.corr("conv", reqs, outs, nontriv, classes)
    # basis level
    rng = ctx.rng
    h2 = tabs["horton2"]
    keys = [k for k in sorted(h2) if k[0] <= 6]
    reqs, outs, classes = [], [], []
    for _ in range(ctx.n(300, 6000)):
        nsh = rng.randint(0, 12)
        kps = [[rng.choice(keys) for _ in range(rng.randint(1, 4))] for _ in range(nsh)]
        used = sorted({k for ks in kps for k in ks})
        t1 = {k: _rand_conv(rng, h2[k]) for k in used}
        t2 = {k: _rand_conv(rng, h2[k]) for k in used}
        cls = "ok"
        r = rng.random()
        if used and r < 0.1:
            del t2[rng.choice(used)]
            cls = "missing-key-2"
        elif used and r < 0.2:
            del t1[rng.choice(used)]
            cls = "missing-key-1"
        elif used and r < 0.3:
            k = rng.choice(used)
            t2[k] = _corrupt(rng, t2[k])
            cls = "corrupt-entry"
        rev = rng.random() < 0.4
        flat = [k for ks in kps for k in ks]
        reqs.append(f"convb {int(rev)} {_enc_list([f'{l}{k}' for l, k in flat])} {_enc_table(t1)} {_enc_table(t2)}")
        outs.append(impl_basis(kps, t1, t2, rev))
        classes.append(f"{cls}/nshell={min(nsh, 9)//3*3}+")
    ctx.corr("convb", reqs, outs, None, classes)
    ctx.extra_cov["builtin_pairs_exhaustive"] = True


# --------------------------------------------------------------------------
def _strip(x):
    return x.lstrip("-")


def _sg(x):
    return -1 if x.startswith("-") else 1


def _compatible(c1, c2):
    s1, s2 = [_strip(x) for x in c1], [_strip(x) for x in c2]
    return len(c1) == len(c2) and len(set(s1)) == len(s1) and len(set(s2)) == len(s2) and set(s1) == set(s2)


def check_shell(c1, c2):
    """The property on the real code; returns None or (sig, what)."""
    from iodata.convert import _convert_convention_shell as f

    comp = _compatible(c1, c2)
    try:
        p, s = f(list(c1), list(c2))
    except ValueError:
        return None if not comp else ("conv-rejects-valid", "valid conventions rejected")
    except Exception as exc:
        return ("conv-wrong-exception", f"{type(exc).__name__} instead of ValueError")
    if not comp:
        return ("conv-accepts-invalid", "conventions that omit/duplicate/mismatch labels were accepted")
    n = len(c1)
    if sorted(int(i) for i in p) != list(range(n)):
        return ("conv-not-permutation", f"permutation {list(p)}")
    for j in range(n):
        i = int(p[j])
        if _strip(c1[i]) != _strip(c2[j]):
            return ("conv-spec-position", f"target {c2[j]} gets source {c1[i]}")
        if int(s[j]) != _sg(c1[i]) * _sg(c2[j]):
            return ("conv-spec-sign", f"sign of {c2[j]} from {c1[i]} is {s[j]}")
    v = np.arange(1, n + 1) * 7 + 3
    p2, s2 = f(list(c2), list(c1))
    if not np.array_equal((v[p] * s)[p2] * s2, v):
        return ("conv-inverse", "there-and-back is not the identity")
    pr, sr = f(list(c1), list(c2), True)
    if not np.array_equal((v[p] * s)[pr] * sr, v):
        return ("conv-reverse", "reverse=True is not the inverse")
    return None


def _py_wellformed(key, labels):
    l, kind = key
    st = [_strip(x) for x in labels]
    if kind == "c":
        exp = {"x" * a + "y" * b + "z" * (l - a - b) for a in range(l + 1) for b in range(l + 1 - a)} if l else {"1"}
    elif kind == "p" and l >= 2:
        exp = {"c0"} | {f"{t}{m}" for m in range(1, l + 1) for t in "cs"}
    else:
        return False
    return len(st) == len(exp) and set(st) == exp and all(x.count("-") <= 1 for x in labels)


def search(ctx):
    tabs = _tables()
    rng = ctx.rng
    # the generated default tables beyond what the Lean tables hold are covered by default_tables_closed_form; here
    # every entry up to l = 24 once more against the Python statement of well-formedness, and HORTON2 <-> CCA
    import iodata.convert as cv
    import random

    for name, t in (("horton2", cv.HORTON2_CONVENTIONS), ("cca", cv.CCA_CONVENTIONS)):
        for k, labels in t.items():
            ok = _py_wellformed(k, list(labels))
            ctx.count("table-entry-full", [name, k], "ok" if ok else "bad")
            if not ok:
                ctx.fail(f"table:{name}:{k[0]}{k[1]}", f"default table {name}{k} is not a complete duplicate-free list "
                         f"({len(labels)} labels)", {"kind": "table-full", "table": name, "key": list(k)})
    for k in cv.HORTON2_CONVENTIONS:
        if k in cv.CCA_CONVENTIONS and k[0] > 9:
            r = check_shell(list(cv.HORTON2_CONVENTIONS[k]), list(cv.CCA_CONVENTIONS[k]))
            ctx.count("pair-full", ["horton2", "cca", k], "ok" if r is None else r[0])
            if r:
                ctx.fail(f"{r[0]}:horton2->cca:{k}", r[1], {"kind": "table-full", "table": "cca", "key": list(k)})
    changed = tables_after_use()
    ctx.count("tables-after-use", "h-shell round trips", "ok" if not changed else "changed")
    for n in changed:
        ctx.fail(f"table-modified-by-use:{n}", f"built-in convention table {n} differs after dumping and reloading a basis "
                 "with a pure h shell (a reader or writer stored into the shared table)", {"kind": "tables-after-use", "table": n})
    # histories on objects that stay alive and are edited in place
    for _ in range(ctx.n(150, 2000) * (4 if ctx.escalated else 1)):
        hs = rng.getrandbits(48)
        nsteps = rng.choice([2, 3, 5, 8])
        r = check_inplace_history(random.Random(hs), tabs["horton2"], nsteps)
        ctx.count("search-inplace-history", [hs, nsteps], "ok" if r is None else r[0])
        if r:
            ctx.fail(r[0], r[1], {"kind": "history", "rngseed": hs, "nsteps": nsteps, "steps": r[2][-4:]})
    for name, t in tabs.items():
        for k, labels in t.items():
            ok = _py_wellformed(k, labels)
            ctx.count("table-entry", [name, k], "ok" if ok else "bad")
            if not ok:
                ctx.fail(f"table:{name}:{k[0]}{k[1]}", f"built-in table {name}{k} is not a complete duplicate-free list: {labels}",
                         {"kind": "table", "table": name, "key": list(k), "labels": labels})
    for a, b in itertools.product(tabs, repeat=2):
        for k in tabs[a]:
            if k in tabs[b]:
                r = check_shell(tabs[a][k], tabs[b][k])
                ctx.count("pair", [a, b, k], "ok" if r is None else r[0])
                if r:
                    ctx.fail(f"{r[0]}:{a}->{b}:{k}", r[1], {"kind": "shell", "c1": tabs[a][k], "c2": tabs[b][k]})
    h2 = tabs["horton2"]
    keys = sorted(h2)
    n = ctx.n(1500, 30000) * (4 if ctx.escalated else 1)
    for _ in range(n):
        k = rng.choice(keys)
        c1, c2 = _rand_conv(rng, h2[k]), _rand_conv(rng, h2[k])
        rr = rng.random()
        if rr < 0.25:
            c2 = _corrupt(rng, c2)
        elif rr < 0.4:
            kind = rng.choice(["dupsign", "dup", "drop", "replace"])
            c1, c2 = _corrupt(rng, c1, kind), _corrupt(rng, c2, kind)
        r = check_shell(c1, c2)
        ctx.count("search-shell", [c1, c2], "ok" if r is None else r[0], sample={"c1": c1, "c2": c2})
        if r:
            ctx.fail(r[0], r[1], {"kind": "shell", "c1": c1, "c2": c2})
        # composition through a third convention
        if _compatible(c1, c2):
            from iodata.convert import _convert_convention_shell as f

            c3 = _rand_conv(rng, [_strip(x) for x in c1])
            v = np.arange(1, len(c1) + 1) * 5 + 1
            p12, s12 = f(c1, c2)
            p23, s23 = f(c2, c3)
            p13, s13 = f(c1, c3)
            ok = np.array_equal((v[p12] * s12)[p23] * s23, v[p13] * s13)
            ctx.count("search-compose", [c1, c2, c3], "ok" if ok else "bad")
            if not ok:
                ctx.fail("conv-compose", "A->B->C differs from A->C", {"kind": "compose", "c1": c1, "c2": c2, "c3": c3})
    # basis level: block structure against the shell level
    from iodata.basis import MolecularBasis, Shell
    from iodata.convert import _convert_convention_shell as f
    from iodata.convert import convert_conventions

    for _ in range(ctx.n(200, 3000)):
        nsh = rng.randint(1, 8)
        kps = [[rng.choice(keys[:12]) for _ in range(rng.randint(1, 3))] for _ in range(nsh)]
        used = sorted({k for ks in kps for k in ks})
        t1 = {k: _rand_conv(rng, h2[k]) for k in used}
        t2 = {k: _rand_conv(rng, h2[k]) for k in used}
        shells = [Shell(0, np.array([k[0] for k in ks]), [k[1] for k in ks], np.ones(1), np.ones((1, len(ks)))) for ks in kps]
        try:
            p, s = convert_conventions(MolecularBasis(shells, t1, "L2"), t2)
        except Exception as exc:
            ctx.count("search-basis", [kps, t1, t2], "exception")
            ctx.fail("convb-exception:" + type(exc).__name__,
                     f"convert_conventions raised {type(exc).__name__} for conventions covering every shell type of the basis",
                     {"kind": "basis", "keys": kps, "t1": {f"{a}{b}": v for (a, b), v in t1.items()},
                      "t2": {f"{a}{b}": v for (a, b), v in t2.items()}})
            continue
        exp_p, exp_s = [], []
        for ks in kps:
            for k in ks:
                pp, ss = f(t1[k], t2[k])
                off = len(exp_p)
                exp_p += [int(i) + off for i in pp]
                exp_s += [int(x) for x in ss]
        ok = list(map(int, p)) == exp_p and list(map(int, s)) == exp_s
        ctx.count("search-basis", [kps, t1, t2], "ok" if ok else "bad")
        if not ok:
            ctx.fail("convb-block", "basis conversion is not the block sum of shell conversions",
                     {"kind": "basis", "keys": kps, "t1": {f"{a}{b}": v for (a, b), v in t1.items()},
                      "t2": {f"{a}{b}": v for (a, b), v in t2.items()}})


def _spec_shell(c1, c2):
    """the permutation and signs the property prescribes, computed from the labels alone; None = must be refused"""
    if not _compatible(c1, c2):
        return None
    pos = {_strip(x): i for i, x in enumerate(c1)}
    perm = [pos[_strip(y)] for y in c2]
    return perm, [_sg(c1[i]) * _sg(y) for i, y in zip(perm, c2)]


def check_inplace_history(rng, h2, nsteps):
    """One basis object and one target table, both kept alive and edited IN PLACE between conversions (entries
    re-ordered, signs flipped, a label corrupted and repaired): every conversion must reflect the current contents.
    Returns None or (sig, what, replayable steps)."""
    from iodata.basis import MolecularBasis, Shell
    from iodata.convert import convert_conventions

    keys = rng.sample(sorted(h2), rng.randint(1, 3))
    t1 = {k: _rand_conv(rng, h2[k]) for k in keys}
    t2 = {k: _rand_conv(rng, h2[k]) for k in keys}
    shells = [Shell(i % 2, np.array([k[0]]), [k[1]], np.ones(1), np.ones((1, 1))) for i, k in enumerate(keys)]
    ob = MolecularBasis(shells, t1, "L2")
    steps = []
    for step in range(nsteps):
        tab = rng.choice([t1, t2])
        k = rng.choice(keys)
        lst = tab[k]
        op = rng.choice(["swap", "sign", "corrupt", "repair", "none"]) if len(lst) > 1 else rng.choice(["sign", "none"])
        if op == "swap":
            i, j = rng.sample(range(len(lst)), 2)
            lst[i], lst[j] = lst[j], lst[i]
        elif op == "sign":
            i = rng.randrange(len(lst))
            lst[i] = lst[i][1:] if lst[i].startswith("-") else "-" + lst[i]
        elif op == "corrupt":
            i, j = rng.sample(range(len(lst)), 2)
            lst[i] = lst[j]
        elif op == "repair":
            lst[:] = _rand_conv(rng, h2[k])
        rev = rng.random() < 0.3
        steps.append({"op": op, "t1": {f"{a}{b}": list(v) for (a, b), v in t1.items()},
                      "t2": {f"{a}{b}": list(v) for (a, b), v in t2.items()}, "rev": rev})
        spec = [_spec_shell(t1[k2], t2[k2]) for k2 in keys]
        try:
            p, sg = convert_conventions(ob, t2, rev)
            got = (list(map(int, p)), list(map(int, sg)))
        except ValueError:
            got = None
        except Exception as exc:  # noqa: BLE001
            return ("conv-wrong-exception:history", f"{type(exc).__name__} after in-place edits", steps)
        if any(x is None for x in spec):
            want = None
        else:
            perm, sign, off = [], [], 0
            for pm, sgn in spec:
                perm += [off + i for i in pm]
                sign += sgn
                off += len(pm)
            if rev:
                inv = [0] * len(perm)
                isg = [0] * len(perm)
                for j, i in enumerate(perm):
                    inv[i], isg[i] = j, sign[j]
                perm, sign = inv, isg
            want = (perm, sign)
        if got != want:
            what = ("stale or wrong result" if got is not None and want is not None else
                    "accepted conventions that are invalid now" if want is None else "refused conventions that are valid now")
            return ("conv-inplace-history", f"step {step} ({op}): {what}: got {got}, the current labels prescribe {want}", steps)
    return None


def tables_after_use():
    """the built-in tables before and after the library itself has used them (dump and reload of a basis with shell
    types some tables do not define): returns the names of tables that changed"""
    import copy
    import os
    import tempfile
    import warnings

    from iodata import IOData, dump_one, load_one
    from iodata.basis import MolecularBasis, Shell
    from iodata.orbitals import MolecularOrbitals

    before = copy.deepcopy(_tables())
    shells = [Shell(0, np.array([0]), ["c"], np.array([1.3]), np.array([[1.0]])),
              Shell(0, np.array([5]), ["p"], np.array([0.9]), np.array([[1.0]]))]
    import iodata.convert as cv

    ob = MolecularBasis(shells, cv.HORTON2_CONVENTIONS, "L2")
    nb = ob.nbasis
    mo = MolecularOrbitals("restricted", 1, 1, np.array([2.0]), np.eye(nb)[:, :1], np.array([-0.5]), np.array(["a"]))
    d = IOData(atnums=np.array([2]), atcoords=np.zeros((1, 3)), obasis=ob, mo=mo)
    with tempfile.TemporaryDirectory(prefix="c10t-") as tmp, warnings.catch_warnings():
        warnings.simplefilter("ignore")
        for ext in ("mkl", "molden", "fchk"):
            fn = os.path.join(tmp, "h." + ext)
            try:
                dump_one(d, fn)
                load_one(fn)
            except Exception:  # noqa: BLE001  a refusal is fine here: only the tables are observed
                pass
    after = _tables()
    return sorted(n for n in before if before[n] != after.get(n))


def replay(ctx, obj):
    inp = obj["input"]
    if inp["kind"] == "tables-after-use":
        return bool(tables_after_use())
    if inp["kind"] == "history":
        import random

        return check_inplace_history(random.Random(inp["rngseed"]), _tables()["horton2"], inp["nsteps"]) is not None
    if inp["kind"] == "shell":
        return check_shell(inp["c1"], inp["c2"]) is not None
    if inp["kind"] == "table-full":
        import iodata.convert as cv

        t = cv.HORTON2_CONVENTIONS if inp["table"] == "horton2" else cv.CCA_CONVENTIONS
        k = tuple(inp["key"])
        return not _py_wellformed(k, list(t[k])) or (k in cv.HORTON2_CONVENTIONS and k in cv.CCA_CONVENTIONS and
                                                   check_shell(list(cv.HORTON2_CONVENTIONS[k]), list(cv.CCA_CONVENTIONS[k])) is not None)
    if inp["kind"] == "table":
        t = _tables()[inp["table"]]
        return not _py_wellformed(tuple(inp["key"]), t[tuple(inp["key"])])
    if inp["kind"] == "compose":
        from iodata.convert import _convert_convention_shell as f

        c1, c2, c3 = inp["c1"], inp["c2"], inp["c3"]
        v = np.arange(1, len(c1) + 1) * 5 + 1
        p12, s12 = f(c1, c2)
        p23, s23 = f(c2, c3)
        p13, s13 = f(c1, c3)
        return not np.array_equal((v[p12] * s12)[p23] * s23, v[p13] * s13)
    if inp["kind"] == "basis":
        from iodata.basis import MolecularBasis, Shell
        from iodata.convert import _convert_convention_shell as f
        from iodata.convert import convert_conventions

        def tab(d):
            return {(int(k[:-1]), k[-1]): v for k, v in d.items()}

        t1, t2 = tab(inp["t1"]), tab(inp["t2"])
        kps = [[tuple(k) for k in ks] for ks in inp["keys"]]
        shells = [Shell(0, np.array([k[0] for k in ks]), [k[1] for k in ks], np.ones(1), np.ones((1, len(ks)))) for ks in kps]
        try:
            p, s = convert_conventions(MolecularBasis(shells, t1, "L2"), t2)
        except Exception:
            return True
        exp_p, exp_s = [], []
        for ks in kps:
            for k in ks:
                pp, ss = f(t1[k], t2[k])
                off = len(exp_p)
                exp_p += [int(i) + off for i in pp]
                exp_s += [int(x) for x in ss]
        return not (list(map(int, p)) == exp_p and list(map(int, s)) == exp_s)
    return True
