"""POSCAR text layer (title, scaling, cell lines, element/count lines, switches, direct coordinates) against
``Model/Fmt/PoscarW.lean``.

The model's object carries the numbers *as printed* (cell rows in angstrom, direct coordinates, 16 decimals).  The harness
derives them from the doubles of the IOData object with the writer's own floating-point expressions (``rvec / angstrom``,
``np.dot(np.linalg.inv(cell).T, r)``) followed by an exact (Fraction) rounding to 16 decimals; in the other direction the
model's exact decimals are turned into doubles with the reader's expressions (``float(text) * (angstrom * scaling)``,
``np.dot(frac, cellvecs)``) and compared bit for bit with what the real reader returned.  That the direct coordinates are
the right ones (``inv(cell)ᵀ r`` within the conditioning of the cell) is the business of ``direct-coordinates:poscar`` and
of the search comparison.
"""

from __future__ import annotations

import random

import numpy as np

from . import _formats as F
from ._adapters import Adapter

D = 16


def _ang():
    from iodata.utils import angstrom

    return angstrom


def quantise(cell, atnums, atcoords, title):
    """the printed numbers of an object, by the writer's own float expressions + exact rounding"""
    ang = _ang()
    cq = [[F.fx_quant(float(c) / ang, D) for c in row] for row in cell]
    gvecs = np.linalg.inv(cell).T
    atoms = []
    for k in range(len(atnums)):
        row = np.dot(gvecs, atcoords[k])
        atoms.append((int(atnums[k]), [F.fx_quant(float(v), D) for v in row]))
    return {"title": title or "", "cell": cq, "atoms": atoms}


def fx_to_float(fx):
    neg, mag = fx
    v = mag / 10**D
    return -v if neg else v


class PoscarW(Adapter):
    key = fmt = "poscar"

    def pick_natom(self, rng, i, thorough):
        classes = [1, 2, 3, 9, 10, 11, 99, 100, 101, 999, 1000, 1001] + ([9999, 10000, 10001] if thorough else [])
        return classes[i] if i < len(classes) else rng.randint(1, 40)

    def gen(self, rng, natom, i):
        nel = rng.choice([1, 2, 3, 5, 20])
        els = [rng.randint(1, 118) for _ in range(nel)]
        scale = rng.choice([3.0, 10.0, 40.0, 900.0, 20000.0])  # bohr; the widest gives cell entries > 9999 angstrom (22 characters)
        while True:
            cell = np.diag([scale, scale * rng.uniform(0.5, 2), scale * rng.uniform(0.5, 2)]) + np.array(
                [[rng.uniform(-1, 1) * scale / 4 for _ in range(3)] for _ in range(3)])
            if i % 7 == 3:
                cell = np.round(cell)
            if abs(np.linalg.det(cell)) > 1e-3 * scale**3:
                break
        frac = np.array([[rng.choice([0.0, 0.5, rng.uniform(-0.5, 1.5), rng.uniform(-30, 30), rng.uniform(-1, 1) * 1e-12])
                          for _ in range(3)] for _ in range(natom)])
        q = {"cellvecs": cell, "atnums": np.array([rng.choice(els) for _ in range(natom)]), "atcoords": frac @ cell,
             "title": F.rand_title(rng)}
        cls = f"natom={natom if natom in F.SIZE_CLASSES_THOROUGH else 'rand'}/nelements={len(set(q['atnums'].tolist())) if len(set(q['atnums'].tolist())) < 4 else 'many'}/wide={int(scale > 10000)}"
        return q, "-", cls

    def build(self, q, opts="-"):
        from iodata import IOData

        return IOData(atnums=q["atnums"], atcoords=q["atcoords"], cellvecs=q["cellvecs"], title=q["title"] or None)

    def enc_q(self, m):
        v = lambda fx3: ":".join(F.enc_fx(x) for x in fx3)  # noqa: E731
        return ";".join([F.enc_str(m["title"]), "/".join(v(r) for r in m["cell"]),
                         F.enc_list(m["atoms"], lambda a: f"{a[0]}:{v(a[1])}")])

    def enc(self, q):
        return self.enc_q(quantise(q["cellvecs"], q["atnums"], q["atcoords"], q["title"]))


POSCARW = PoscarW()


def expected_from_model(line):
    """doubles the reader must return for the numbers the model read, by the reader's own float expressions"""
    t, scale, cell, cart, atoms = line[3:].split(";")
    ang = _ang()
    sneg, smag = F.dec_fx(scale)
    scaling = smag / 10**14 * (-1 if sneg else 1)
    cellvecs = np.array([[fx_to_float(F.dec_fx(x)) for x in r.split(":")] for r in cell.split("/")])
    cellvecs *= ang * scaling
    ats = F.dec_list(atoms, lambda a: a.split(":"))
    atnums = np.array([int(a[0]) for a in ats])
    fr = [[fx_to_float(F.dec_fx(x)) for x in a[1:]] for a in ats]
    atcoords = np.array(fr) * ang * scaling if cart == "1" else np.dot(np.array(fr), cellvecs)
    return F.dec_str(t), cellvecs, atnums, atcoords


def corr(ctx, n, generations=1):
    ad = POSCARW
    rng = ctx.rng
    dreq, dimp, dcls, loads = [], [], [], []
    for i in range(n):
        q, opts, cls = ad.gen(rng, ad.pick_natom(rng, i, ctx.thorough), i)
        r = F.real_dump(ad.build(q), "poscar")
        dreq.append(f"fmtw dump poscar - {ad.enc(q)}")
        dimp.append("ok " + r.value.hex() if r.ok else "err DumpError")
        dcls.append(cls + ("" if r.ok else "/refused:" + r.err))
        if r.ok:
            loads.append((r.value, cls))
    ctx.corr("dump:poscar", dreq, dimp, None, dcls)
    lreq = [f"fmtw load poscar - {raw.hex()}" for raw, _ in loads]
    outs = ctx.driver(lreq)
    limp, second = [], []
    for (raw, cls), out in zip(loads, outs):
        r = F.real_load(raw, "poscar")
        if not r.ok:
            limp.append("err " + r.err)
            continue
        if not out.startswith("ok "):
            limp.append("ok <loaded by the implementation>")
            continue
        t, cellvecs, atnums, atcoords = expected_from_model(out)
        x = r.value
        bad = []
        if x.title != t:
            bad.append("title")
        if x.cellvecs.shape != cellvecs.shape or x.cellvecs.tobytes() != cellvecs.tobytes():
            bad.append("cellvecs")
        if not np.array_equal(x.atnums, atnums):
            bad.append("atnums")
        if x.atcoords.shape != atcoords.shape or np.ascontiguousarray(x.atcoords).tobytes() != atcoords.tobytes():
            bad.append("atcoords")
        limp.append(out if not bad else "DIFF " + ",".join(bad))
        second.append((x, cls))
    ctx.corr("load:poscar", lreq, limp, None, [c for _, c in loads])
    if generations > 1:
        g2req, g2imp, g2cls = [], [], []
        for x, cls in second:
            r = F.real_dump(x, "poscar")
            g2req.append("fmtw dump poscar - " + ad.enc_q(quantise(x.cellvecs, x.atnums, x.atcoords, x.title)))
            g2imp.append("ok " + r.value.hex() if r.ok else "err DumpError")
            g2cls.append(cls)
        ctx.corr("dump-gen2:poscar", g2req, g2imp, None, g2cls)


def correspond(ctx):
    if ctx.prop == "C15":
        corr(ctx, ctx.n(100, 400), generations=2)
    else:
        corr(ctx, ctx.n(250, 1000))


# ---------------------------------------------------------------------------------------------
# C15 search: where the known drift lives


def drift_eval(x):
    """three generations on the real code: outside the numeric columns the files must be identical, inside them the drift
    must stay within the rounding of inv(cell) / the angstrom factor; returns (sig, what) or None"""
    r1 = F.real_dump(x, "poscar")
    if not r1.ok:
        return None
    l1 = F.real_load(r1.value, "poscar")
    if not l1.ok:
        return None
    r2 = F.real_dump(l1.value, "poscar")
    if not r2.ok:
        return ("poscar-w:gen2-refused", "POSCAR: the reloaded object is refused on the second save")
    a, b = r1.value.decode().split("\n"), r2.value.decode().split("\n")
    if len(a) != len(b):
        return ("poscar-w:gen2-structure", f"POSCAR: generation 2 has {len(b)} lines, generation 1 {len(a)}")
    cond = np.linalg.cond(x.cellvecs)
    eps = 2.0**-52
    for k, (la, lb_) in enumerate(zip(a, b)):
        numeric = 2 <= k <= 4 or k >= 9
        if not numeric or not la:
            if la != lb_:
                return ("poscar-w:gen2-structure", f"POSCAR: line {k + 1} differs between generation 1 and 2: {la!r} / {lb_!r}")
            continue
        wa, wb = la.split(), lb_.split()
        if len(wa) != len(wb) or wa[3:] != wb[3:] or len(la) != len(lb_) and not any(len(w) > 20 for w in wa[:3] + wb[:3]):
            return ("poscar-w:gen2-structure", f"POSCAR: line {k + 1} changes shape between generation 1 and 2: {la!r} / {lb_!r}")
        for ta, tb in zip(wa[:3], wb[:3]):
            va, vb = float(ta), float(tb)
            tol = (8 * eps * abs(va) + 1.5e-16) if k <= 4 else (64 * cond * eps * max(1.0, abs(va)) + 1.5e-16)
            if abs(va - vb) > tol:
                return ("poscar-w:gen2-drift-beyond-rounding",
                        f"POSCAR: line {k + 1}: {ta} -> {tb}, more than the rounding of the coordinate maps allows ({tol:.2e})")
    return None


def search(ctx):
    if ctx.prop != "C15":
        return
    ad = POSCARW
    rng = ctx.rng
    for i in range(ctx.n(120, 600) * (3 if ctx.escalated else 1)):
        seed = rng.getrandbits(48)
        natom = ad.pick_natom(rng, i, ctx.thorough)
        q, _, cls = ad.gen(random.Random(seed), natom, i)
        res = drift_eval(ad.build(q))
        ctx.count("drift-confined:poscar", seed, cls + ("" if res is None else "/FAIL"), sample={"format": "poscar", "natom": natom})
        if res:
            ctx.fail(res[0], res[1], {"kind": "c15", "format": "poscar-w", "spec": {"seed": seed, "natom": natom, "i": i}})


class _Replay:
    def replay(self, inp):
        s = inp["spec"]
        q, _, _ = POSCARW.gen(random.Random(s["seed"]), s["natom"], s["i"])
        return drift_eval(POSCARW.build(q)) is not None


REPLAY = {"poscar-w": _Replay()}
