"""T1 translator shared by C02 / C03 / C15: writer fields, reader slices, tables -> lean/Iodata/Gen/Layouts.lean.

Everything is read from the *source text* of the format modules under ``engine.REPO`` with ``ast``
(plus the imported ``iodata.periodic`` tables): every ``print(..)`` / ``f.write(..)`` of a writer as a list
of fields (``lit`` / ``int w`` / ``fix w d`` / ``sci w d`` / ``str w``, each with the source text of the
formatted expression), every ``line[a:b]`` of a reader, every ``words[i]`` use of a splitting reader.
The per-format ``Layout`` records consumed by the Lean models are assembled from these lists, and Lean
re-checks (``decide``) that the lists have exactly the shape the hand model assumes for those parameters.
"""

from __future__ import annotations

import ast
import re

from .. import engine

FORMATS = ["xyz", "sdf", "pdb", "mol2", "gromacs", "cube", "fcidump", "poscar", "chgcar", "fchk"]

SPEC_RE = re.compile(r"^(?:(.)?([<>=^]))?([-+ ])?(#)?(0)?(\d+)?(,)?(?:\.(\d+))?([a-zA-Z%])?$")


def chars(s: str) -> str:
    """Python str -> Lean `List Char` literal."""
    out = []
    for c in s:
        if c == "'":
            out.append("'\\''")
        elif c == "\\":
            out.append("'\\\\'")
        elif c == "\n":
            out.append("'\\n'")
        elif c == "\t":
            out.append("'\\t'")
        elif 32 <= ord(c) < 127:
            out.append(f"'{c}'")
        else:
            out.append("'\\u{%x}'" % ord(c))
    return "[" + ",".join(out) + "]"


def lb(b: bool) -> str:
    return "true" if b else "false"


# ---------------------------------------------------------------------------------------------
# writer fields


def _spec_field(name: str, spec: str):
    m = SPEC_RE.match(spec)
    if not m:
        return ("other", f"{{{name}:{spec}}}")
    fill, align, sign, alt, zero, width, comma, prec, typ = m.groups()
    w = int(width) if width else 0
    if fill or alt or zero or comma or sign in ("+", "-") or align in ("=", "^"):
        return ("other", f"{{{name}:{spec}}}")
    if typ == "d" and align in (None, ">") and prec is None:
        return ("int", name, w)
    if typ == "f" and align in (None, ">") and prec is not None:
        return ("fix", name, sign == " ", w, int(prec))
    if typ in ("e", "E") and align in (None, ">") and prec is not None:
        return ("sci", name, sign == " ", typ == "E", w, int(prec))
    if typ is None and prec is None and sign is None and align is None and re.match(r"int\(.*\)$|nval$", name):
        # `{nval:12}` / `{int(val[i]):12}`: an int formatted without a type letter is right-justified like `d`
        return ("int", name, w)
    if typ in ("s", None) and prec is None and sign is None:
        return ("str", name, w, align == ">")
    return ("other", f"{{{name}:{spec}}}")


def _percent_fields(fmt: str, args: list[str]):
    out = []
    pos = 0
    it = iter(args)
    for m in re.finditer(r"%(-?)(\d*)(?:\.(\d+))?([dfeEs%])", fmt):
        if m.start() > pos:
            out.append(("lit", fmt[pos : m.start()]))
        pos = m.end()
        minus, width, prec, typ = m.groups()
        if typ == "%":
            out.append(("lit", "%"))
            continue
        name = next(it, "?")
        w = int(width) if width else 0
        if typ == "d" and not minus:
            out.append(("int", name, w))
        elif typ == "f" and not minus and prec is not None:
            out.append(("fix", name, False, w, int(prec)))
        elif typ in "eE" and not minus and prec is not None:
            out.append(("sci", name, False, typ == "E", w, int(prec)))
        elif typ == "s":
            out.append(("str", name, w, not minus and w > 0))
        else:
            out.append(("other", m.group(0) + "<-" + name))
    if pos < len(fmt):
        out.append(("lit", fmt[pos:]))
    return out


def expr_fields(e: ast.expr, env: dict[str, ast.expr], depth: int = 0):
    """Fields written by expression ``e`` (``env``: latest simple assignments of the function)."""
    if isinstance(e, ast.Constant) and isinstance(e.value, str):
        return [("lit", e.value)] if e.value else []
    if isinstance(e, ast.JoinedStr):
        out = []
        for v in e.values:
            if isinstance(v, ast.Constant):
                if v.value:
                    out.append(("lit", v.value))
            else:
                name = ast.unparse(v.value)
                if v.conversion != -1:
                    name += "!" + chr(v.conversion)
                if v.format_spec is None and isinstance(v.value, ast.Name) and v.value.id in env and depth < 4:
                    out.extend(expr_fields(env[v.value.id], env, depth + 1))
                elif v.format_spec is None:
                    out.append(("str", name, 0, False))
                elif all(isinstance(x, ast.Constant) for x in v.format_spec.values):
                    out.append(_spec_field(name, "".join(x.value for x in v.format_spec.values)))
                else:
                    out.append(("other", ast.unparse(v)))
        return out
    if isinstance(e, ast.BinOp) and isinstance(e.op, ast.Add):
        return expr_fields(e.left, env, depth) + expr_fields(e.right, env, depth)
    if isinstance(e, ast.BinOp) and isinstance(e.op, ast.Mod) and isinstance(e.left, ast.Constant) and isinstance(e.left.value, str):
        args = e.right.elts if isinstance(e.right, ast.Tuple) else [e.right]
        return _percent_fields(e.left.value, [ast.unparse(a) for a in args])
    if isinstance(e, ast.Name) and e.id in env and depth < 4:
        return expr_fields(env[e.id], env, depth + 1)
    if (
        isinstance(e, ast.Call)
        and isinstance(e.func, ast.Attribute)
        and e.func.attr == "format"
        and isinstance(e.func.value, ast.Constant)
        and isinstance(e.func.value.value, str)
    ):
        # "{:10.5f}".format(x)
        fmt = e.func.value.value
        args = [ast.unparse(a) for a in e.args]
        out, pos, k = [], 0, 0
        for m in re.finditer(r"\{(\w*)(?::([^}]*))?\}", fmt):
            if m.start() > pos:
                out.append(("lit", fmt[pos : m.start()]))
            pos = m.end()
            name = args[k] if k < len(args) and not m.group(1) else (m.group(1) or "?")
            k += 1
            out.append(_spec_field(name, m.group(2) or ""))
        if pos < len(fmt):
            out.append(("lit", fmt[pos:]))
        return out
    if (
        isinstance(e, ast.Call)
        and isinstance(e.func, ast.Attribute)
        and e.func.attr == "join"
        and isinstance(e.func.value, ast.Constant)
        and len(e.args) == 1
        and isinstance(e.args[0], ast.GeneratorExp)
    ):
        g = e.args[0]
        head = f"<join {e.func.value.value!r} for {ast.unparse(g.generators[0].target)} in {ast.unparse(g.generators[0].iter)}>"
        return [("other", head), *expr_fields(g.elt, env, depth + 1), ("other", "</join>")]
    return [("str", ast.unparse(e), 0, False)]


class _FuncWalker(ast.NodeVisitor):
    """Collect writes / slices / word uses per function, in source order."""

    def __init__(self):
        self.stack = ["<module>"]
        self.env_stack = [{}]
        self.writes = []  # (func, fields)
        self.slices = []  # (func, target, a, b, idx)
        self.words = []  # (func, target, i)
        self.fors = []  # enclosing `for x in (consts)`
        self.stmt_target = ["<expr>"]

    # function scopes -------------------------------------------------------
    def visit_FunctionDef(self, node):
        self.stack.append(node.name)
        self.env_stack.append({})
        for st in node.body:
            self.visit(st)
        self.env_stack.pop()
        self.stack.pop()

    def _target_of(self, node):
        if isinstance(node, ast.Assign):
            return ast.unparse(node.targets[0])
        if isinstance(node, ast.AugAssign | ast.AnnAssign):
            return ast.unparse(node.target)
        if isinstance(node, ast.Return):
            return "<return>"
        if isinstance(node, ast.If | ast.While):
            return "<test>"
        return "<expr>"

    def generic_visit(self, node):
        if isinstance(node, ast.stmt):
            self.stmt_target.append(self._target_of(node))
            if isinstance(node, ast.Assign) and len(node.targets) == 1 and isinstance(node.targets[0], ast.Name):
                # remember for `print("ATOM  " + out1 + out2)`
                self.env_stack[-1][node.targets[0].id] = node.value
            if isinstance(node, ast.For):
                self.fors.append(node)
            if isinstance(node, ast.If | ast.While):
                # only the test belongs to "<test>"
                self.visit(node.test)
                self.stmt_target.pop()
                for st in node.body + node.orelse:
                    self.visit(st)
                return
            super().generic_visit(node)
            if isinstance(node, ast.For):
                self.fors.pop()
            self.stmt_target.pop()
        else:
            super().generic_visit(node)

    # writes ---------------------------------------------------------------
    def visit_Call(self, node):
        f = node.func
        is_print = isinstance(f, ast.Name) and f.id == "print" and any(k.arg == "file" for k in node.keywords)
        is_write = isinstance(f, ast.Attribute) and f.attr == "write" and isinstance(f.value, ast.Name) and f.value.id == "f"
        if (is_print or is_write) and node.args:
            fields = expr_fields(node.args[0], self.env_stack[-1])
            if is_print:
                end = next((k.value for k in node.keywords if k.arg == "end"), None)
                if end is None:
                    fields = [*fields, ("lit", "\n")]
                elif not (isinstance(end, ast.Constant) and isinstance(end.value, str)):
                    fields = [*fields, ("other", "end=" + ast.unparse(end))]
                elif end.value:
                    fields = [*fields, ("lit", end.value)]
            self.writes.append((self.stack[-1], fields))
        self.generic_visit(node)

    def visit_Lambda(self, node):
        # the dump-word lambdas of xyz.DEFAULT_ATOM_COLUMNS
        if isinstance(node.body, ast.JoinedStr) or (
            isinstance(node.body, ast.Call) and isinstance(node.body.func, ast.Attribute) and node.body.func.attr == "format"
        ):
            self.writes.append((self.stack[-1] + ".<lambda>", expr_fields(node.body, {})))
        self.generic_visit(node)

    # reads ----------------------------------------------------------------
    def _const(self, e):
        if e is None:
            return None
        if isinstance(e, ast.Constant) and isinstance(e.value, int):
            return e.value
        raise ValueError

    def visit_Subscript(self, node):
        if isinstance(node.value, ast.Name) and node.value.id in ("line", "words"):
            tgt = self.stmt_target[-1]
            fn = self.stack[-1]
            s = node.slice
            if node.value.id == "words":
                if isinstance(s, ast.Constant) and isinstance(s.value, int):
                    self.words.append((fn, tgt, s.value))
                elif isinstance(s, ast.UnaryOp) and isinstance(s.op, ast.USub) and isinstance(s.operand, ast.Constant):
                    self.words.append((fn, tgt, -s.operand.value))
            elif isinstance(s, ast.Slice) and s.step is None:
                try:
                    a, b = self._const(s.lower), self._const(s.upper)
                    if (a is None or a >= 0) and (b is None or b >= 0):
                        self.slices.append((fn, tgt, a or 0, b, False))
                    else:
                        self.slices.append((fn, tgt + f"<{ast.unparse(s)}>", 0, None, False))
                except ValueError:
                    # line[ipos : ipos + 5] inside `for ipos in 12, 17, 22, 27`
                    done = False
                    if isinstance(s.lower, ast.Name) and isinstance(s.upper, ast.BinOp) and isinstance(s.upper.op, ast.Add):
                        var = s.lower.id
                        u = s.upper
                        if isinstance(u.left, ast.Name) and u.left.id == var and isinstance(u.right, ast.Constant):
                            for fr in reversed(self.fors):
                                if isinstance(fr.target, ast.Name) and fr.target.id == var and isinstance(fr.iter, ast.Tuple):
                                    for c in fr.iter.elts:
                                        self.slices.append((fn, tgt, c.value, c.value + u.right.value, False))
                                    done = True
                                    break
                    if not done:
                        self.slices.append((fn, tgt + f"<{ast.unparse(s)}>", 0, None, False))
            elif isinstance(s, ast.Constant) and isinstance(s.value, int) and s.value >= 0:
                self.slices.append((fn, tgt, s.value, s.value + 1, True))
        self.generic_visit(node)


def extract(fmt: str):
    src = (engine.REPO / "iodata" / "formats" / f"{fmt}.py").read_text()
    w = _FuncWalker()
    w.visit(ast.parse(src))
    return w


def _field_lean(f) -> str:
    k = f[0]
    if k == "lit":
        return f"Field.lit {chars(f[1])}"
    if k == "int":
        return f"Field.int {chars(f[1])} {f[2]}"
    if k == "fix":
        return f"Field.fix {chars(f[1])} {lb(f[2])} {f[3]} {f[4]}"
    if k == "sci":
        return f"Field.sci {chars(f[1])} {lb(f[2])} {lb(f[3])} {f[4]} {f[5]}"
    if k == "str":
        return f"Field.str {chars(f[1])} {f[2]} {lb(f[3])}"
    return f"Field.other {chars(f[1])}"


def _tables_lean() -> str:
    from iodata.periodic import bond2num, num2bond, num2sym, sym2num

    # the reverse dictionaries must be the inverses the model assumes (it looks the value up in the forward list)
    assert sym2num == {v: k for k, v in num2sym.items()}, "sym2num is not the inverse of num2sym"
    assert bond2num == {v: k for k, v in num2bond.items()}, "bond2num is not the inverse of num2bond"
    a = ", ".join(f"({k}, {chars(v)})" for k, v in num2sym.items())
    b = ", ".join(f"({k}, {chars(v)})" for k, v in num2bond.items())
    return f"def tables : Tables :=\n  ⟨[{a}],\n   [{b}]⟩\n"


def _find(writes, func, pred):
    for fn, fields in writes:
        if fn == func:
            for f in fields:
                if pred(f):
                    return f
    raise LookupError(f"no matching field in {func}")


def _find_all(writes, func, pred):
    return [f for fn, fields in writes if fn == func for f in fields if pred(f)]


def _default_title(name: str) -> str:
    m = re.search(r"or '([^']*)'", name)
    if not m:
        raise LookupError("no default title in " + name)
    return m.group(1)


LAYOUT_BUILDERS = {}


def layout(fmt):
    def deco(fn):
        LAYOUT_BUILDERS[fmt] = fn
        return fn

    return deco


@layout("xyz")
def _xyz_layout(x):
    import iodata.formats.xyz as m

    sym = _find(x.writes, "<module>.<lambda>", lambda f: f[0] == "str")
    fx = _find(x.writes, "<module>.<lambda>", lambda f: f[0] == "fix")
    ncoord = 1
    for col in m.DEFAULT_ATOM_COLUMNS:
        if col[0] == "atcoords":
            for n in col[2]:
                ncoord *= n
    title = _find(x.writes, "dump_one", lambda f: f[0] == "str" and "data.title" in f[1])
    cols = ", ".join(f"⟨{fx[3]}, {fx[4]}, false⟩" for _ in range(ncoord))
    return f"def xyzL : Xyz.Layout := ⟨{sym[2]}, [{cols}], {chars(_default_title(title[1]))}⟩\n"


@layout("sdf")
def _sdf_layout(x):
    ws = [f for fn, f in x.writes if fn == "dump_one"]
    title, _, _, counts, atom, bond, endl, sep = ws
    lits = lambda fs: [f[1] for f in fs if f[0] == "lit" and f[1] != "\n"]  # noqa: E731
    ints = lambda fs: [f for f in fs if f[0] == "int"]  # noqa: E731
    fx = [f for f in atom if f[0] == "fix"][0]
    sym = [f for f in atom if f[0] == "str"][0]
    gap, atail = lits(atom)
    return (
        f"def sdfL : Sdf.Layout :=\n  ⟨{ints(counts)[0][2]}, {fx[3]}, {fx[4]}, {sym[2]}, {ints(bond)[0][2]}, "
        f"{chars(lits(counts)[0])}, {chars(gap)}, {chars(atail)}, {chars(lits(bond)[0])}, "
        f"{chars(lits(endl)[0])}, {chars(lits(sep)[0])}, {chars(_default_title(title[0][1]))},\n   "
        + ", ".join(f"({a}, {b})" for fn, t, a, b, i in x.slices if fn == "load_one")
        + "⟩\n"
    )


@layout("pdb")
def _pdb_layout(x):
    atom = next(f for fn, f in x.writes if fn == "dump_one" and f and f[0] == ("lit", "ATOM  "))
    con = next(f for fn, f in x.writes if fn == "dump_one" and f and f[0] == ("lit", "CONECT"))
    ints = [f for f in atom if f[0] == "int"]
    strs = [f for f in atom if f[0] == "str"]
    fixs = [f for f in atom if f[0] == "fix"]
    gap4 = [f for f in atom if f[0] == "lit" and f[1].strip() == "" and len(f[1]) > 1][0][1]
    sl = {}
    for fn, t, a, b, i in x.slices:
        sl.setdefault((fn, t), []).append((a, b))
    pa = "_parse_pdb_atom_line"
    co = sl[(pa, "atcoord")]
    src = (engine.REPO / "iodata" / "formats" / "pdb.py").read_text()
    loaded = re.search(r'title = "(PDB file[^"]*)"', src).group(1)
    dtitle = re.search(r'data\.title or "([^"]*)"', src).group(1)
    pr = lambda p: f"({p[0]}, {p[1]})"  # noqa: E731
    others = sl[("_parse_pdb_conect_line", "serial_str")]
    kw = set(re.findall(r"key\.ljust\((\d+)\)", src)) | set(re.findall(r"rjust\((\d+) - len\(key\)\)", src))
    if len(kw) != 1 or not re.search(r'rjust\(\d+ - len\(key\)\) \+ " "', src):
        raise LookupError(f"PDB: widths of the multi-line record prefix not found ({kw})")
    return (
        f"def pdbL : Pdb.Layout :=\n  ⟨{ints[0][2]}, {strs[0][2]}, {strs[1][2]}, {ints[1][2]}, {len(gap4)}, {fixs[0][3]}, {fixs[0][4]}, "
        f"{fixs[3][3]}, {fixs[3][4]}, {strs[3][2]}, {[f for f in con if f[0] == 'int'][0][2]},\n   "
        f"{pr(sl[(pa, 'symbol')][0])}, {pr(sl[(pa, 'atname')][0])}, {pr(sl[(pa, 'resname')][0])}, {sl[(pa, 'chainid')][0][0]}, "
        f"{pr(sl[(pa, 'resnum')][0])}, {pr(co[0])}, {pr(co[1])}, {pr(co[2])}, {pr(sl[(pa, 'occupancy')][0])}, {pr(sl[(pa, 'bfactor')][0])}, "
        f"{sl[('load_one', '<expr>')][0][0]}, {pr(sl[('_parse_pdb_conect_line', 'iatom0')][0])}, [{', '.join(pr(p) for p in others)}],\n   "
        f"{chars(dtitle)}, {chars(loaded)}, {next(iter(kw))}⟩\n"
    )


def _lead_trail(lit: str, letter: str):
    """'   I     ' -> (3, 5); '   I   N=' -> (3, 3)"""
    k = lit.index(letter)
    if lit[:k].strip() != "":
        raise LookupError("unexpected FCHK literal " + repr(lit))
    rest = lit[k + 1 :]
    body = rest[: -2] if rest.endswith("N=") else rest
    if body.strip() != "":
        raise LookupError("unexpected FCHK literal " + repr(lit))
    return k, len(body)


def _per_line(tree: ast.Module, func: str) -> int:
    """the constant in `if k == 6 or i == nval - 1` of an array writer"""
    for node in ast.walk(tree):
        if isinstance(node, ast.FunctionDef) and node.name == func:
            for c in ast.walk(node):
                if (isinstance(c, ast.Compare) and isinstance(c.left, ast.Name) and c.left.id == "k" and len(c.ops) == 1
                        and isinstance(c.ops[0], ast.Eq) and isinstance(c.comparators[0], ast.Constant)):
                    return int(c.comparators[0].value)
    raise LookupError("no per-line constant in " + func)


def _dict_literal(tree: ast.Module, func: str, name: str):
    for node in ast.walk(tree):
        if isinstance(node, ast.FunctionDef) and node.name == func:
            for a in ast.walk(node):
                if (isinstance(a, ast.Assign) and len(a.targets) == 1 and isinstance(a.targets[0], ast.Name)
                        and a.targets[0].id == name and isinstance(a.value, ast.Dict)):
                    return [(k.value, v.value) for k, v in zip(a.value.keys, a.value.values)]
    raise LookupError(f"no dict {name} in {func}")


def _index_vectors(tree: ast.Module, func: str):
    """`x[[0, 3, 5, 1, 2, 4]]`: fancy-index vectors of integer constants used in a function, with the indexed expression"""
    out = []
    for node in ast.walk(tree):
        if isinstance(node, ast.FunctionDef) and node.name == func:
            for sub in ast.walk(node):
                if isinstance(sub, ast.Subscript) and isinstance(sub.slice, ast.List) and sub.slice.elts and all(
                    isinstance(e, ast.Constant) and isinstance(e.value, int) for e in sub.slice.elts
                ):
                    out.append((ast.unparse(sub.value), [e.value for e in sub.slice.elts]))
    return out


@layout("fchk")
def _fchk_layout(x):
    src = (engine.REPO / "iodata" / "formats" / "fchk.py").read_text()
    tree = ast.parse(src)
    w = {}
    for fn, fields in x.writes:
        w.setdefault(fn, []).append(fields)
    si, sr = w["_dump_integer_scalars"][0], w["_dump_real_scalars"][0]
    ai, ar = w["_dump_integer_arrays"], w["_dump_real_arrays"]
    label = next(f for f in si if f[0] == "str")
    gap, pad_s = _lead_trail(next(f[1] for f in si if f[0] == "lit" and f[1] != "\n"), "I")
    _, pad_a = _lead_trail(next(f[1] for f in ai[0] if f[0] == "lit" and f[1] != "\n"), "I")
    int_w = next(f for f in si if f[0] == "int")[2]
    ssci = next(f for f in sr if f[0] == "sci")
    asci = next(f for fs in ar for f in fs if f[0] == "sci")
    d1 = [fs for fs in w["dump_one"]]
    title = next(f for fs in d1 for f in fs if f[0] == "str" and "data.title" in f[1])
    hdr = next(fs for fs in d1 if any(f[0] == "str" and f[1].startswith("items[") for f in fs))
    cmd, lot, bas = [f for f in hdr if f[0] == "str"]
    cut = next(a_b for a_b in ((b if a == 0 else a) for fn, t, a, b, i in x.slices if fn == "_load_fchk_field"))
    absent = re.search(r'or "([A-Za-z]+)" for item in \["run_type"', src).group(1)
    wt = _dict_literal(tree, "dump_one", "run_types")
    rt = _dict_literal(tree, "load_one", "run_types")
    qw = [v for e, v in _index_vectors(tree, "dump_one") if "moments" in e]
    qr = [v for e, v in _index_vectors(tree, "load_one") if "Quadrupole" in e]
    if len(qw) != 1 or len(qr) != 1:
        raise LookupError("quadrupole index vectors not found")
    pairs = lambda t: ", ".join(f"({chars(a)}, {chars(b)})" for a, b in t)  # noqa: E731
    return (
        f"def fchkL : Fchk.Layout :=\n  ⟨{title[2]}, {cmd[2]}, {lot[2]}, {bas[2]}, {label[2]}, {gap}, {pad_s}, {pad_a}, {int_w}, "
        f"{ssci[4]}, {ssci[5]}, {asci[4]}, {asci[5]}, {_per_line(tree, '_dump_integer_arrays')}, {_per_line(tree, '_dump_real_arrays')}, {cut},\n   "
        f"{chars(_default_title(title[1]))}, {chars(absent)}⟩\n\n"
        f"def fchkRunTypes : Fchk.RunTypes :=\n  ⟨[{pairs(wt)}],\n   [{pairs(rt)}]⟩\n\n"
        f"def fchkQuadW : List Nat := {qw[0]}\n\ndef fchkQuadR : List Nat := {qr[0]}\n"
    )


@layout("cube")
def _cube_layout(x):
    src = (engine.REPO / "iodata" / "formats" / "cube.py").read_text()
    tree = ast.parse(src)
    hdr = [f for fn, f in x.writes if fn == "_write_cube_header"]
    dat = [f for fn, f in x.writes if fn == "_write_cube_data"]
    nat = next(f for f in hdr[2] if f[0] == "int")
    hfx = next(f for f in hdr[2] if f[0] == "fix")
    dsc = next(f for f in dat[0] if f[0] == "sci")
    line2 = next(f[1] for f in hdr[1] if f[0] == "lit" and f[1] != "\n")
    mods, eqs = set(), set()
    for node in ast.walk(tree):
        if isinstance(node, ast.FunctionDef) and node.name == "_write_cube_data":
            for c in ast.walk(node):
                if isinstance(c, ast.BinOp) and isinstance(c.op, ast.Mod) and isinstance(c.right, ast.Constant):
                    mods.add(c.right.value)
                if (isinstance(c, ast.Compare) and isinstance(c.left, ast.BinOp) and isinstance(c.left.op, ast.Mod)
                        and isinstance(c.comparators[0], ast.Constant) and isinstance(c.ops[0], ast.Eq)):
                    eqs.add(c.comparators[0].value)
    if len(mods) != 1 or eqs != {next(iter(mods)) - 1}:
        raise LookupError(f"cube data loop: moduli {mods}, compared with {eqs}")
    dtitle = re.search(r'title = data\.title or "([^"]*)"', src).group(1)
    return (f"def cubeL : Cube.Layout := ⟨{nat[2]}, {hfx[3]}, {hfx[4]}, {dsc[4]}, {dsc[5]}, {next(iter(mods))}, "
            f"{chars(line2)}, {chars(dtitle)}⟩\n")


@layout("mol2")
def _mol2_layout(x):
    from iodata.periodic import bond2num

    ws = [f for fn, f in x.writes if fn == "dump_one"]
    comment, blank, _mol, title, counts, counts0, _atom, atom, _bond, bond = ws
    ai = [f for f in atom if f[0] == "int"]
    af = [f for f in atom if f[0] == "fix"]
    astr = [f for f in atom if f[0] == "str"]
    res = [f[1] for f in atom if f[0] == "lit" and f[1].strip()][0]
    if res != " " + res.strip() + " " or af[1][3:] != af[2][3:] or af[0][4] != af[1][4] or [f[2] for f in counts if f[0] == "int"] != [f[2] for f in counts0 if f[0] == "int"]:
        raise LookupError("unexpected MOL2 atom/counts record")
    ci = [f for f in counts if f[0] == "int"]
    bi = [f for f in bond if f[0] == "int"]
    bs = [f for f in bond if f[0] == "str"]
    return (f"def mol2L : Mol2.Layout :=\n  ⟨{ci[0][2]}, {ci[1][2]}, {ai[0][2]}, {astr[0][2]}, {af[0][3]}, {af[1][3]}, {af[0][4]}, {astr[1][2]}, {ai[1][2]}, "
            f"{chars(res.strip())}, {af[3][3]}, {af[3][4]}, {bi[0][2]}, {bi[1][2]}, {bs[0][2]},\n   {chars(comment[0][1])}, {chars(blank[0][1])}, "
            f"{chars(_default_title(title[0][1]))}, {bond2num['un']}⟩\n")


@layout("gromacs")
def _gro_layout(x):
    src = (engine.REPO / "iodata" / "formats" / "gromacs.py").read_text()
    tree = ast.parse(src)
    sl = [(a, b) for fn, t, a, b, i in x.slices if fn == "_helper_read_frame" and b is not None and t == "<expr>"]
    if len(sl) != 3:
        raise LookupError(f"GRO: expected three fixed slices (resnum, resname, atname), found {sl}")
    starts = set()
    for node in ast.walk(tree):
        if (isinstance(node, ast.Call) and isinstance(node.func, ast.Attribute) and node.func.attr == "index"
                and isinstance(node.func.value, ast.Name) and node.func.value.id == "line" and len(node.args) == 2
                and isinstance(node.args[1], ast.Constant)):
            starts.add(node.args[1].value)
    if len(starts) != 1:
        raise LookupError(f"GRO: start column of the position fields not found ({starts})")
    # velocities optional: the velocity loop is guarded by a test on the rest of the line
    opt = bool(re.search(r"if line\[20 \+ 3 \* width\s*:\]\.strip\(\) != \"\"", src))
    pr = lambda p: f"({p[0]}, {p[1]})"  # noqa: E731
    return f"def groL : Gro.Layout := ⟨{pr(sl[0])}, {pr(sl[1])}, {pr(sl[2])}, {next(iter(starts))}, {lb(opt)}⟩\n"


def build_gen() -> str:
    out = [
        "import Iodata.Model.Fmt.Core",
        "import Iodata.Model.Fmt.All",
        "namespace Iodata.Gen.Layouts",
        "open Iodata.Fmt",
        "",
        _tables_lean(),
    ]
    for fmt in FORMATS:
        x = extract(fmt)
        ws = ",\n   ".join(f"({chars(fn)}, [{', '.join(_field_lean(f) for f in fields)}])" for fn, fields in x.writes)
        out.append(f"def {fmt}_writes : List Write :=\n  [{ws}]\n")
        ss = ",\n   ".join(
            f"⟨{chars(fn)}, {chars(t)}, {a}, {'none' if b is None else f'some {b}'}, {lb(i)}⟩" for fn, t, a, b, i in x.slices
        )
        out.append(f"def {fmt}_slices : List Slice :=\n  [{ss}]\n")
        us = ",\n   ".join(f"⟨{chars(fn)}, {chars(t)}, {engine.lean_int(i)}⟩" for fn, t, i in x.words)
        out.append(f"def {fmt}_words : List WordUse :=\n  [{us}]\n")
        if fmt in LAYOUT_BUILDERS:
            out.append(LAYOUT_BUILDERS[fmt](x))
    out.append("end Iodata.Gen.Layouts\n")
    return "\n".join(out)


def translate(ctx):
    ctx.gen_write("Layouts", build_gen())
