"""C13 — trajectories keep every frame, in order, each identical to a single load."""

from __future__ import annotations

import ast
import contextlib
import os
import shutil
import tempfile
import warnings

import numpy as np

from ..engine import REPO, lean_list, lean_str

MODULES = ["Iodata.Props.C13"]
RULE = (
    "frame sequences of 1-50 frames (random atom counts 1-9 and compositions, titles None/plain/padded/separator-looking "
    "'$$$$','END','12','@<TRIPOS>MOLECULE','M  END', for pdb also multi-line titles up to 12 lines and multi-line "
    "compounds, bonds, mol2 charges) are written by the REAL dump_many (xyz, pdb, mol2, sdf) or by the harness' own "
    "renderer (extxyz, gromacs, and pdb MODEL/ENDMDL trajectories with header and MASTER/END records); each file is then (traj) loaded whole, (trajc) cut "
    "after every line, and (traj/corrupt) given one corrupted count / numeric field / separator / inserted blank line per "
    "variant; the real load_many outcome (frames yielded with atom count, bond count, title, warning flag; final outcome "
    "and the line number of the LoadError) is compared with the Lean model fed the same lines (per-line record validity "
    "decided by the real single-line parsers). dumpm: iterables as list / generator / generator raising after i items / "
    "items failing the required-attribute check at position j, observed through a counting wrapper and recorders on "
    "_check_required and the format's dump_one. fchkm: synthetic optimisation / IRC files with random numbers of "
    "points, steps, inconsistent counts and missing arrays. non-trivial = distinct request whose file has >= 2 frames or "
    "is rejected / cut / corrupted"
)
TRUSTED = [
    "per-line record validity (atom / bond / title / box line parses) is decided by calling the real format load_one on "
    "a minimal single-frame file containing that line; the Lean model takes these flags as its abstract line parsers",
    "recorders wrapped around iodata.api._check_required and <format>.dump_one to observe the order of events",
]
ASSUMPTIONS = [
    "every line of a file is newline-terminated; text is ASCII without \\x1c-\\x1f (str.strip/str.split/int as transcribed)",
    "PEP 479 (a StopIteration leaving a generator body is a RuntimeError) as implemented by CPython 3.12",
    "numpy raises ValueError for negative dimensions (np.zeros/np.empty)",
    "GRO, extended XYZ and FCHK have no writer: their theorems are about an independent renderer of well-formed frames",
]
TIME_LIMIT = {"quick": 900, "thorough": 7200}

LOADERS = ["xyz", "extxyz", "sdf", "gromacs", "pdb", "mol2"]
DUMPERS = ["xyz", "pdb", "mol2", "sdf"]


# ======================================================================================
# T1 translator: control-flow skeletons
# ======================================================================================
def _src(fmt):
    return (REPO / "iodata" / "formats" / f"{fmt}.py").read_text()


def _func(tree, name):
    for n in tree.body:
        if isinstance(n, ast.FunctionDef) and n.name == name:
            return n
    raise ValueError(f"function {name} not found")


def _strip_doc(body):
    if body and isinstance(body[0], ast.Expr) and isinstance(getattr(body[0], "value", None), ast.Constant) \
            and isinstance(body[0].value.value, str):
        return body[1:]
    return body


def _unp(nodes):
    return "\n".join(ast.unparse(n) for n in nodes)


EXC_SETS = {
    "StopIteration": [".stop"],
    "LoadError": [".loadError"],
    "Exception": [".stop", ".loadError", ".other"],
    "BaseException": [".stop", ".loadError", ".other"],
}

PEEK_SHAPES = {
    "": "none",
    "line = next(lit)\nif line.strip() == '':\n    return\nlit.back(line)": "oneBlankEnds",
    "try:\n    line = next(lit)\n    while line.strip() == '':\n        line = next(lit)\nexcept StopIteration:\n    return\n"
    "lit.back(line)": "skipBlank",
    "lines = []\ntry:\n    while not lines or lines[-1].strip() == '':\n        lines.append(next(lit))\n"
    "except StopIteration:\n    return\nwhile lines:\n    lit.back(lines.pop())": "peekPushAll",
    "for line in lit:\n    if line.split()[:1] == ['@<TRIPOS>MOLECULE']:\n        lit.back(line)\n        break\nelse:\n"
    "    if nframe == 0:\n        raise LoadError('Molecule could not be read.', lit)\n    return": "scanMolecule",
}


def _exc_names(h):
    if h.type is None:
        return ["BaseException"]
    if isinstance(h.type, ast.Tuple):
        return [ast.unparse(e) for e in h.type.elts]
    return [ast.unparse(h.type)]


def _handler_act(h):
    txt = _unp(h.body)
    if txt == "return":
        return ".ret"
    if txt.startswith("raise LoadError(") and "\n" not in txt:
        return ".toLoadError"
    if txt == "if nframe == 0:\n    raise\nreturn":
        return ".firstRaiseElseRet"
    raise ValueError(f"except clause with an unmodelled body: {txt!r}")


def _calls(node, name):
    return any(isinstance(c, ast.Call) and ast.unparse(c.func) == name for c in ast.walk(node))


def nomolecule_classes(fmt):
    """Names of private exception classes of the module that stand for load_one's "no molecule left": a direct
    subclass of LoadError with no body of its own, raised exactly once in the module, namely in load_one as the only
    statement under `if not molecule_found:`.  In the model that site is the only source of `.loadError` inside
    load_one, so a handler naming such a class catches exactly the model's `.loadError`."""
    tree = ast.parse(_src(fmt))
    out = []
    for n in tree.body:
        if not (isinstance(n, ast.ClassDef) and [ast.unparse(b) for b in n.bases] == ["LoadError"]):
            continue
        if any(not (isinstance(b, ast.Pass) or (isinstance(b, ast.Expr) and isinstance(b.value, ast.Constant)))
               for b in n.body):
            continue
        raises = [r for r in ast.walk(tree) if isinstance(r, ast.Raise) and isinstance(r.exc, ast.Call)
                  and ast.unparse(r.exc.func) == n.name]
        lo = _func(tree, "load_one")
        sites = [i for i in ast.walk(lo) if isinstance(i, ast.If) and ast.unparse(i.test) == "not molecule_found"
                 and len(i.body) == 1 and i.body[0] in raises and not i.orelse]
        if len(raises) == 1 and len(sites) == 1:
            out.append(n.name)
    return out


def loop_skeleton(fmt):
    """(peek kind, handlers) of <fmt>.load_many; raises when the loop has a shape the model does not cover."""
    fn = _func(ast.parse(_src(fmt)), "load_many")
    body = _strip_doc(fn.body)
    # leading bookkeeping (`nframe = 0`)
    body = [s for s in body if not (isinstance(s, ast.Assign) and ast.unparse(s) == "nframe = 0")]
    outer_handlers = []
    if len(body) == 1 and isinstance(body[0], ast.Try):
        outer_handlers = body[0].handlers
        if body[0].orelse or body[0].finalbody:
            raise ValueError("try/else/finally around the loop")
        body = body[0].body
    if not (len(body) == 1 and isinstance(body[0], ast.While) and ast.unparse(body[0].test) == "True"
            and not body[0].orelse):
        raise ValueError("load_many is not a single `while True` loop")
    stmts = list(body[0].body)
    # split: statements before the one that calls load_one
    k = next((i for i, s in enumerate(stmts) if _calls(s, "load_one")), None)
    if k is None:
        raise ValueError("no call of load_one in the loop")
    peek_txt = _unp(stmts[:k])
    if peek_txt not in PEEK_SHAPES:
        raise ValueError(f"unmodelled statements before load_one: {peek_txt!r}")
    peek = PEEK_SHAPES[peek_txt]
    call = stmts[k]
    tail = stmts[k + 1:]
    inner_handlers = []
    if isinstance(call, ast.Try):
        if call.orelse or call.finalbody:
            raise ValueError("try/else/finally around load_one")
        inner_handlers = call.handlers
        inner = _unp(call.body)
    else:
        inner = ast.unparse(call)
    tail_txt = _unp([s for s in tail if ast.unparse(s) != "nframe += 1"])
    ok_shapes = {("yield load_one(lit)", ""), ("yield load_one(lit, atom_columns)", ""),
                 ("data = load_one(lit)", "yield data"), ("data = load_one(lit, atom_columns)", "yield data")}
    if (inner, tail_txt) not in ok_shapes:
        raise ValueError(f"unmodelled use of load_one: {inner!r} / {tail_txt!r}")
    if peek == "scanMolecule" and not any(ast.unparse(s) == "nframe += 1" for s in tail):
        raise ValueError("nframe is not incremented")
    handlers = []
    special = nomolecule_classes(fmt)
    for h in list(inner_handlers) + list(outer_handlers):
        names = _exc_names(h)
        excs = []
        for n in names:
            for e in EXC_SETS.get(n, [".loadError"] if n in special else [".other"]):
                if e not in excs:
                    excs.append(e)
        handlers.append((excs, _handler_act(h)))
    if any(a == ".firstRaiseElseRet" for _, a in handlers) and not any(ast.unparse(s) == "nframe += 1" for s in tail):
        raise ValueError("nframe is not incremented")
    # an outer `except StopIteration: return` also turns the end of file inside the peek into a return; the
    # modelled peeks already return there, so only the effect on load_one's exceptions is recorded.
    return peek, handlers


def api_load_many_handlers():
    fn = _func(ast.parse((REPO / "iodata" / "api.py").read_text()), "load_many")
    body = _strip_doc(fn.body)
    if ast.unparse(body[0]) != "format_module = _select_format_module(filename, 'load_many', fmt)":
        raise ValueError("api.load_many: unexpected first statement")
    w = body[1]
    if not (len(body) == 2 and isinstance(w, ast.With) and ast.unparse(w.items[0]) == "LineIterator(filename) as lit"):
        raise ValueError("api.load_many: no `with LineIterator(filename) as lit`")
    t = w.body[0]
    if not (len(w.body) == 1 and isinstance(t, ast.Try) and not t.orelse and not t.finalbody):
        raise ValueError("api.load_many: with-body is not a single try")
    if _unp(t.body) != "for data in format_module.load_many(lit, **kwargs):\n    yield IOData(**data)":
        raise ValueError("api.load_many: try body changed: " + _unp(t.body))
    out = []
    amap = {"StopIteration": [".stopIteration"], "LoadError": [".loadError"],
            "Exception": [".stopIteration", ".loadError", ".exception"]}
    for h in t.handlers:
        excs = []
        for n in _exc_names(h):
            if n not in amap:
                raise ValueError(f"api.load_many: unmodelled exception class {n}")
            excs += [e for e in amap[n] if e not in excs]
        txt = _unp(h.body)
        if txt == "return":
            act = ".ret"
        elif txt == "raise":
            act = ".reraise"
        elif txt.startswith("raise LoadError(") and txt.endswith("from exc"):
            act = ".wrapLoadError"
        else:
            raise ValueError(f"api.load_many: unmodelled handler body {txt!r}")
        out.append((excs, act))
    return out


def api_dump_many_flow():
    """Ordered tokens of api.dump_many: what touches the iterable, and when, relative to the checks and `open`."""
    fn = _func(ast.parse((REPO / "iodata" / "api.py").read_text()), "dump_many")
    toks = []

    class V(ast.NodeVisitor):
        def visit_Call(self, c):
            f = ast.unparse(c.func)
            args = [ast.unparse(a) for a in c.args]
            if f in ("list", "tuple", "sorted", "reversed", "len", "set") and args and "iter_data" in args[0]:
                toks.append(f"{f}(iter_data)")
            elif f == "iter" and args == ["iter_data"]:
                toks.append("iter(iter_data)")
            elif f == "next" and args[:1] == ["iter_data"]:
                toks.append("next(iter_data)")
            elif f == "_check_required":
                toks.append(f"check({args[1]})")
            elif f == "format_module.prepare_dump":
                toks.append(f"prepare({args[0]})")
            elif f == "open":
                toks.append("open")
            elif f == "format_module.dump_many":
                toks.append("format.dump_many(" + ", ".join(args) + ")")
            self.generic_visit(c)

        def visit_For(self, n):
            toks.append(f"for {ast.unparse(n.target)} in {ast.unparse(n.iter)}")
            self.generic_visit(n)

        def visit_Yield(self, n):
            toks.append("yield " + (ast.unparse(n.value) if n.value is not None else ""))
            self.generic_visit(n)

        def visit_With(self, n):
            # the context expression is evaluated before the body
            for it in n.items:
                self.visit(it)
            for s in n.body:
                self.visit(s)

    # statement order; the nested generator function is visited where it is defined
    V().visit(fn)
    # normalise the conditional-expression yield
    toks = [("yield prepared(other)" if t.startswith("yield format_module.prepare_dump(other") else t) for t in toks]
    return toks


def fmt_dump_many_flow(fmt):
    fn = _func(ast.parse(_src(fmt)), "dump_many")
    return [ast.unparse(s) for s in _strip_doc(fn.body)]


def fchk_loop_tokens():
    fn = _func(ast.parse(_src("fchk")), "load_many")
    loop = next(s for s in fn.body if isinstance(s, ast.For))
    toks = [f"for {ast.unparse(loop.target)} in {ast.unparse(loop.iter)}"]
    for n in ast.walk(loop):
        if isinstance(n, ast.Subscript) and isinstance(n.slice, ast.Slice):
            toks.append(ast.unparse(n))
        if isinstance(n, ast.JoinedStr):
            toks.append(ast.unparse(n))
        if isinstance(n, ast.For) and n is not loop:
            toks.append(f"for {ast.unparse(n.target)} in {ast.unparse(n.iter)}")
        if isinstance(n, ast.Dict) and any(isinstance(k, ast.Constant) and k.value == "ipoint" for k in n.keys):
            for k, v in zip(n.keys, n.values):
                toks.append(f"{k.value}={ast.unparse(v)}")
        if isinstance(n, ast.Compare):
            toks.append(ast.unparse(n))
        if isinstance(n, ast.Call) and ast.unparse(n.func).endswith(".reshape"):
            toks.append("reshape(" + ", ".join(ast.unparse(a) for a in n.args) + ")")
    return sorted(set(toks))


def mol2_bond_check():
    fn = _func(ast.parse(_src("mol2")), "load_one")
    txt = _unp(fn.body)
    return "if nbonds > 0 and 'bonds' not in result:\n    raise LoadError(" in txt


def translate(ctx):
    body = ["import Iodata.Model.Traj", "namespace Iodata.Gen.TrajFlow", "open Iodata.Traj", ""]
    for fmt in LOADERS:
        peek, handlers = loop_skeleton(fmt)
        hs = lean_list(handlers, lambda h: f"({lean_list(h[0])}, {h[1]})")
        body.append(f"/-- skeleton of `{fmt}.load_many` -/\ndef {fmt} : LoopSkel := ⟨.{peek}, {hs}⟩\n")
    body.append(f"/-- mol2.load_one raises LoadError for an announced but absent BOND section -/\n"
                f"def mol2BondCheck : Bool := {'true' if mol2_bond_check() else 'false'}\n")
    ah = api_load_many_handlers()
    body.append("/-- the except clauses of `api.load_many` around `for data in format_module.load_many(...)` -/\n"
                "def apiLoadMany : List (List ApiExc × ApiAct) :=\n  "
                + lean_list(ah, lambda h: f"({lean_list(h[0])}, {h[1]})") + "\n")
    body.append("/-- ordered uses of the iterable, checks, `open` and yields in `api.dump_many` -/\n"
                "def apiDumpMany : List String :=\n  " + lean_list(api_dump_many_flow(), lean_str) + "\n")
    body.append("/-- bodies of the formats' `dump_many` -/\ndef fmtDumpMany : List (String × List String) :=\n  "
                + lean_list(DUMPERS, lambda f: f"({lean_str(f)}, {lean_list(fmt_dump_many_flow(f), lean_str)})") + "\n")
    body.append("/-- point / step bookkeeping expressions of `fchk.load_many` -/\ndef fchkLoop : List String :=\n  "
                + lean_list(fchk_loop_tokens(), lean_str) + "\n")
    body.append("end Iodata.Gen.TrajFlow\n")
    ctx.gen_write("TrajFlow", "\n".join(body))


# ======================================================================================
# running the real code
# ======================================================================================
_TMP = None


def _tmpdir():
    global _TMP
    if _TMP is None or not os.path.isdir(_TMP):
        base = "/dev/shm" if os.path.isdir("/dev/shm") else None
        _TMP = tempfile.mkdtemp(prefix="c13_", dir=base)
        import atexit

        atexit.register(shutil.rmtree, _TMP, True)
    return _TMP


def _mod(fmt):
    import importlib

    return importlib.import_module(f"iodata.formats.{fmt}")


def fake_lit(lines):
    from iodata.utils import LineIterator

    lit = LineIterator.__new__(LineIterator)
    lit.filename = "<mem>"
    lit.fh = iter(lines)
    lit.lineno = 0
    lit.stack = []
    return lit


def one_ok(fmt, lines):
    try:
        with warnings.catch_warnings():
            warnings.simplefilter("ignore")
            _mod(fmt).load_one(fake_lit(lines))
        return True
    except Exception:
        return False


SDF_COUNTS = "{:3d}{:3d}  0     0  0  0  0  0  0999 V2000\n"
SDF_ATOM = "    0.0000    0.0000    0.0000 H   0  0  0  0  0  0  0  0  0  0  0  0\n"
GRO_ATOM = "    1WATER  OW1    1   0.126   1.624   1.679  0.1227 -0.0580  0.0434\n"
PDB_ATOM = "ATOM      1 H1   XXX     1       0.000   0.000   0.000  1.00  0.00           H\n"
MOL2_ATOM = "      1 H1          0.0000    0.0000    0.0000 H         1 XXX         0.0000\n"
EXT_TITLE = 'Properties=species:S:1:pos:R:3 energy=-1.5 pbc="F F F"\n'
_flag_cache: dict = {}


def line_flags(fmt, line, ext_title=EXT_TITLE):
    """bit 1: atom record, 2: bond/CONECT record, 4: title (extxyz, gro), 8: GRO box line."""
    key = (fmt, line, ext_title if fmt == "extxyz" else None)
    if key in _flag_cache:
        return _flag_cache[key]
    L = line
    f = 0
    if fmt == "xyz":
        f |= 1 * one_ok("xyz", ["1\n", "T\n", L])
    elif fmt == "extxyz":
        f |= 1 * one_ok("extxyz", ["1\n", ext_title, L])
        f |= 4 * one_ok("extxyz", ["0\n", L])
    elif fmt == "sdf":
        f |= 1 * one_ok("sdf", ["T\n", "\n", "\n", SDF_COUNTS.format(1, 0), L, "M  END\n", "$$$$\n"])
        f |= 2 * one_ok("sdf", ["T\n", "\n", "\n", SDF_COUNTS.format(1, 1), SDF_ATOM, L, "M  END\n", "$$$$\n"])
    elif fmt == "gromacs":
        f |= 1 * one_ok("gromacs", ["T\n", "1\n", L, "1 1 1\n"])
        f |= 4 * one_ok("gromacs", [L, "0\n", "1 1 1\n"])
        f |= 8 * one_ok("gromacs", ["T\n", "0\n", L])
    elif fmt == "pdb":
        if L.startswith(("ATOM", "HETATM")):
            f |= 1 * one_ok("pdb", [L, "END\n"])
        if L.startswith("CONECT"):
            f |= 2 * one_ok("pdb", [PDB_ATOM, L, "END\n"])
    elif fmt == "mol2":
        f |= 1 * one_ok("mol2", ["@<TRIPOS>MOLECULE\n", "T\n", "1 0\n", "@<TRIPOS>ATOM\n", L])
        f |= 2 * one_ok("mol2", ["@<TRIPOS>MOLECULE\n", "T\n", "1 1\n", "@<TRIPOS>ATOM\n", MOL2_ATOM,
                                 "@<TRIPOS>BOND\n", L])
    _flag_cache[key] = f
    return f


def ascii_ok(lines):
    return all(all((32 <= ord(c) < 127) or c in "\t" for c in l[:-1]) and l.endswith("\n") and "\n" not in l[:-1]
               for l in lines)


def tokens(fmt, lines, ext_title=EXT_TITLE):
    if not lines:
        return "@"
    return ",".join("%x%s" % (line_flags(fmt, l, ext_title), l[:-1].encode("ascii").hex()) for l in lines)


def impl_load_many(fmt, lines):
    """Canonical line of the real load_many on a file with these lines."""
    from iodata import load_many
    from iodata.utils import LoadError, LoadWarning

    fn = os.path.join(_tmpdir(), f"t{os.getpid()}.{fmt}")
    with open(fn, "w") as fh:
        fh.write("".join(lines))
    frames = []
    final = "done"
    with warnings.catch_warnings(record=True) as wl:
        warnings.simplefilter("always")
        try:
            nwarn = 0
            for m in load_many(fn, fmt=fmt):
                nb = "-" if (m.bonds is None or fmt in ("xyz", "extxyz", "gromacs")) else str(len(m.bonds))
                if fmt == "pdb":
                    nb = "0" if m.bonds is None else None
                w = 0
                if fmt == "pdb":
                    w = int(any(issubclass(x.category, LoadWarning) and "END is not found" in str(x.message)
                                for x in wl[nwarn:]))
                nwarn = len(wl)
                frames.append([m.natom, nb, (m.title or "").encode("ascii", "replace").hex(), w, m])
        except LoadError as exc:
            final = f"LE{exc.lineno}"
        except Exception as exc:  # an exception class the funnel must never let through
            final = "Other:" + type(exc).__name__
    return frames, final


def _pdb_nconect(lines_of_frame):
    return None


def show_impl(fmt, frames, final, pdb_conects=None):
    out = []
    for i, (na, nb, th, w, _m) in enumerate(frames):
        if fmt == "pdb":
            nb = pdb_conects[i] if pdb_conects is not None and i < len(pdb_conects) else "?"
        out.append(f"{na}/{nb}/{th}/{w}")
    return f"{len(frames)} {final} " + (";".join(out) if out else "-")


def pdb_conect_counts(lines):
    """number of (atom, partner) pairs the reader keeps per frame is data, the MODEL reports CONECT *records*:
    count the CONECT records inside each frame the same way the reader frames them (END after an atom)."""
    counts, cur, found = [], 0, False
    for l in lines:
        if l.startswith(("ATOM", "HETATM")):
            found = True
        if l.startswith("CONECT"):
            cur += 1
        if l.startswith("END") and found:
            counts.append(cur)
            cur, found = 0, False
    if found:
        counts.append(cur)
    return counts


def impl_line(fmt, lines):
    frames, final = impl_load_many(fmt, lines)
    return show_impl(fmt, frames, final, pdb_conect_counts(lines) if fmt == "pdb" else None), frames, final


# ======================================================================================
# generators
# ======================================================================================
TITLES = [None, "", "Frame {i}", "water {i}", "$$$$", "END", "12", "  padded {i}  ", "@<TRIPOS>MOLECULE", "M  END",
          "TITLE", "3", "ENDMDL", "@<TRIPOS>ATOM", "x,y t= 1.0", "a  b\tc", "-1", "MODEL 1", "HETATM", "CONECT"]


PDB_MULTI_TITLES = ["two\nlines {i}", "a\n\nb", "  padded {i} \n second  \nthird", "END\nENDMDL\nATOM", "x\n" * 11 + "y"]


def rand_frame(rng, i, fmt, natom=None):
    from iodata import IOData
    from iodata.utils import angstrom

    n = natom if natom is not None else rng.choice([1, 1, 2, 3, 3, 4, 5, 6, 7, 9])
    atnums = np.array([rng.choice([1, 6, 7, 8, 9, 15, 16, 17, 26, 35]) for _ in range(n)])
    atcoords = np.array([[round(rng.uniform(-9, 9), 3) for _ in range(3)] for _ in range(n)]) * angstrom
    t = rng.choice(TITLES)
    if fmt == "pdb" and rng.random() < 0.25:
        t = rng.choice(PDB_MULTI_TITLES)
    title = None if t is None else t.format(i=i)
    kw = dict(atnums=atnums, atcoords=atcoords)
    if fmt == "pdb" and rng.random() < 0.3:
        kw["extra"] = {"compound": rng.choice(["water", "first line\nsecond line", " padded \n\nEND", "ATOM\nTITLE\nx"])}
    if title is not None:
        kw["title"] = title
    if fmt in ("sdf", "mol2", "pdb") and n >= 2 and rng.random() < 0.6:
        nb = rng.randint(1, min(4, n - 1))
        bonds = []
        for _ in range(nb):
            a = rng.randrange(n - 1)
            b = rng.randrange(a + 1, n)
            bonds.append([a, b, rng.choice([1, 2, 3, 4] if fmt != "pdb" else [0])])
        kw["bonds"] = np.array(bonds)
    if fmt == "mol2" and rng.random() < 0.5:
        kw["atcharges"] = {"mol2charges": np.array([round(rng.uniform(-1, 1), 4) for _ in range(n)])}
    if fmt in ("mol2", "pdb") and rng.random() < 0.3:
        from iodata.periodic import num2sym

        kw["atffparams"] = {"attypes": np.array([num2sym[z] + ".x" for z in atnums]) if fmt == "mol2" else
                            np.array([num2sym[z] + str(k % 9) for k, z in enumerate(atnums)])}
    return IOData(**kw)


def render_ext(rng, nframes):
    lines, meta = [], []
    for i in range(nframes):
        n = rng.choice([1, 2, 3, 5])
        lines.append(f"{n}\n")
        lines.append(EXT_TITLE)
        for _ in range(n):
            lines.append("%s %.4f %.4f %.4f\n" % (rng.choice(["H", "O", "C", "Fe"]), rng.uniform(-5, 5), rng.uniform(-5, 5),
                                                   rng.uniform(-5, 5)))
        meta.append(n)
    return lines, meta


def render_gro(rng, nframes):
    lines, meta = [], []
    for i in range(nframes):
        n = rng.choice([1, 2, 3, 5])
        t = rng.choice(["water", "MD of 2 waters, t= %.1f" % (i * 0.5), "12", "", "  padded  ", "a, b"])
        lines.append(t + "\n")
        lines.append(f"{n:5d}\n")
        for k in range(n):
            lines.append("%5d%-5s%5s%5d%8.3f%8.3f%8.3f%8.4f%8.4f%8.4f\n" % (
                1 + k // 3, "WATER", ["OW1", "HW2", "HW3"][k % 3], k + 1, rng.uniform(0, 2), rng.uniform(0, 2),
                rng.uniform(0, 2), rng.uniform(-1, 1), rng.uniform(-1, 1), rng.uniform(-1, 1)))
        lines.append(rng.choice(["   1.82060   1.82060   1.82060\n",
                                 "   1.0 1.0 1.0 0.0 0.0 0.5 0.0 0.5 0.5\n"]))
        meta.append(n)
    return lines, meta


def render_pdb_models(rng, nframes):
    """A MODEL/ENDMDL trajectory as other programs write it (the library itself writes END-terminated frames):
    optional header records, then per frame `MODEL n`, the ATOM and CONECT records the real dump_one prints for a
    random frame, `ENDMDL`; optional MASTER / END after the last model.  Returns (lines, frame start indices)."""
    lines = list(rng.choice([[], ["TITLE     models\n"], ["REMARK   1 generated\n", "CRYST1   10.000   10.000   10.000"
                             "  90.00  90.00  90.00 P 1           1\n"]]))
    starts = []
    end_each = rng.random() < 0.35
    for i in range(nframes):
        one = real_dump_one("pdb", rand_frame(rng, i, "pdb"))
        starts.append(len(lines) if i else 0)
        lines.append("MODEL     %4d\n" % (i + 1))
        lines += [l for l in one if l.startswith(("ATOM", "HETATM"))]
        lines += [l for l in one if l.startswith("CONECT")]
        lines.append("ENDMDL\n")
        if end_each:
            lines.append("END\n")  # single-model files concatenated: every frame is closed by ENDMDL and END
    if not end_each:
        lines += rng.choice([["END\n"], ["MASTER        0    0    0\n", "END\n"], []])
    return lines, starts


def real_dump_many(fmt, frames, as_gen=False):
    from iodata import dump_many

    fn = os.path.join(_tmpdir(), f"d{os.getpid()}.{fmt}")
    if os.path.exists(fn):
        os.unlink(fn)
    with warnings.catch_warnings():
        warnings.simplefilter("ignore")
        dump_many((f for f in frames) if as_gen else list(frames), fn, fmt=fmt)
    with open(fn) as fh:
        return fh.readlines()


def real_dump_one(fmt, frame):
    from iodata import dump_one

    fn = os.path.join(_tmpdir(), f"o{os.getpid()}.{fmt}")
    with warnings.catch_warnings():
        warnings.simplefilter("ignore")
        dump_one(frame, fn, fmt=fmt)
    with open(fn) as fh:
        return fh.readlines()


def make_file(rng, fmt, nframes):
    """(lines, expected natoms per frame, in_domain)"""
    if fmt == "extxyz":
        lines, meta = render_ext(rng, nframes)
        return lines, meta, None
    if fmt == "gromacs":
        lines, meta = render_gro(rng, nframes)
        return lines, meta, None
    frames = [rand_frame(rng, i, fmt) for i in range(nframes)]
    lines = real_dump_many(fmt, frames, as_gen=rng.random() < 0.5)
    if fmt == "sdf" and rng.random() < 0.5:
        # the three header lines as other programs fill them: molecule name (may be blank), program/timestamp line,
        # comment line (the library's own writer leaves lines 2 and 3 empty)
        for k, s0 in enumerate(frame_spans("sdf", lines)):
            if rng.random() < 0.4:
                lines[s0] = "\n"
                frames[k].title = ""
            if rng.random() < 0.6:
                lines[s0 + 1] = rng.choice(["  -OEChem-03231108593D\n", "     RDKit          3D\n", "  ChemDraw09282609123D\n"])
            if rng.random() < 0.4:
                lines[s0 + 2] = rng.choice(["generated by hand\n", "comment\n", " 1\n"])
    return lines, [f.natom for f in frames], frames


NUM_BAD = ["x", "", "-1", "1e3", "0", "99", "3.0", "+2", " 7 "]


def frame_spans(fmt, lines):
    """start indices of frames in a well-formed generated file"""
    starts = []
    if fmt in ("xyz", "extxyz"):
        i = 0
        while i < len(lines):
            starts.append(i)
            i += int(lines[i]) + 2
    elif fmt == "gromacs":
        i = 0
        while i < len(lines):
            starts.append(i)
            i += int(lines[i + 1]) + 3
    elif fmt == "sdf":
        i = 0
        while i < len(lines):
            starts.append(i)
            i = _sdf_end(lines, i)
    elif fmt == "pdb":
        starts = [0] + [i + 1 for i, l in enumerate(lines[:-1]) if l == "END\n"]
    elif fmt == "mol2":
        starts = [i for i, l in enumerate(lines) if l.startswith("# Mol2 file")]
    return starts


def _sdf_end(lines, s0):
    """index after the `$$$$` line of the SDF record starting at s0 (the title is taken by position)"""
    na, nb = int(lines[s0 + 3][0:3]), int(lines[s0 + 3][3:6])
    i = s0 + 4 + na + nb
    while lines[i] != "$$$$\n":
        i += 1
    return i + 1


def corrupt(rng, fmt, lines):
    """one corrupted variant: (new lines, class)"""
    lines = list(lines)
    starts = frame_spans(fmt, lines)
    k = rng.randrange(len(starts))
    a = starts[k]
    b = starts[k + 1] if k + 1 < len(starts) else len(lines)
    kind = rng.choice(["count", "count", "field", "field", "blank-insert", "separator", "delete-line", "dup-line",
                       "trailing-blank"])
    bad = rng.choice(NUM_BAD)
    if kind == "count":
        if fmt in ("xyz", "extxyz"):
            lines[a] = bad + "\n"
        elif fmt == "gromacs":
            lines[a + 1] = bad + "\n"
        elif fmt == "sdf":
            l = lines[a + 3]
            lines[a + 3] = (bad.rjust(3)[:3] + l[3:]) if rng.random() < 0.5 else (l[:3] + bad.rjust(3)[:3] + l[6:])
        elif fmt == "mol2":
            j = next(i for i in range(a, b) if lines[i].startswith("@<TRIPOS>MOLECULE")) + 2
            w = lines[j].split()
            w[rng.randrange(2)] = bad if bad.strip() else "q"
            lines[j] = " ".join(w) + "\n"
        else:
            kind = "field"
    if kind == "field":
        cands = [i for i in range(a, b) if any(ch.isdigit() for ch in lines[i]) and "." in lines[i]]
        if cands:
            i = rng.choice(cands)
            l = lines[i]
            p = l.index(".")
            lines[i] = l[:p - 1] + rng.choice(["x.", "..", " .", "e."]) + l[p + 1:]
        else:
            kind = "blank-insert"
    if kind == "blank-insert":
        lines.insert(rng.randint(a, b), rng.choice(["\n", "   \n", "\t\n"]))
    if kind == "trailing-blank":
        lines += [rng.choice(["\n", "  \n"])] * rng.randint(1, 3)
    if kind == "separator":
        seps = {"sdf": "$$$$\n", "pdb": "END\n", "mol2": "@<TRIPOS>MOLECULE\n"}
        if fmt in seps:
            idx = [i for i in range(a, b) if lines[i] == seps[fmt]]
            if idx:
                i = rng.choice(idx)
                lines[i] = rng.choice([seps[fmt][:-2] + "\n", " " + seps[fmt], seps[fmt].lower(),
                                       seps[fmt][:-1] + " \n"])
        else:
            kind = "delete-line"
    if kind == "delete-line":
        del lines[rng.randrange(a, b)]
    if kind == "dup-line":
        i = rng.randrange(a, b)
        lines.insert(i, lines[i])
    return lines, kind


# ======================================================================================
# T2 correspondence
# ======================================================================================
def _mode():
    return "n1" if mol2_bond_check() else "n0"


def correspond(ctx):
    rng = ctx.rng
    mode = _mode()
    nfiles = ctx.n(30, 150)
    for fmt in LOADERS:
        reqs, outs, nontriv, classes = [], [], [], []
        creqs, couts, cnt, ccls = [], [], [], []
        sizes = [1, 2, 3] + [rng.randint(2, 8) for _ in range(nfiles - 3)]
        if ctx.thorough:
            sizes += [50, rng.randint(20, 50)]
        else:
            sizes += [rng.choice([25, 50])]
        ncuts = 0
        for nf in sizes:
            lines, _meta, _frames = make_file(rng, fmt, nf)
            if not ascii_ok(lines):
                continue
            tk = tokens(fmt, lines)
            line, _, _ = impl_line(fmt, lines)
            reqs.append(f"traj {fmt} {mode} {tk}")
            outs.append(line)
            nontriv.append(nf >= 2)
            classes.append(f"whole/{min(nf, 10)}frames")
            # every cut point (big files: a sample of cut points through individual requests)
            if len(lines) <= 120:
                creqs.append(f"trajc {fmt} {mode} {tk}")
                couts.append("|".join(impl_line(fmt, lines[:k])[0] for k in range(len(lines) + 1)))
                cnt.append(True)
                ccls.append(f"all-cuts/{min(nf, 10)}frames")
                ncuts += len(lines) + 1
            else:
                for k in sorted(rng.sample(range(len(lines)), min(len(lines), ctx.n(40, 200)))):
                    reqs.append(f"traj {fmt} {mode} {tokens(fmt, lines[:k])}")
                    outs.append(impl_line(fmt, lines[:k])[0])
                    nontriv.append(True)
                    classes.append("cut/big")
                    ncuts += 1
            # corrupted variants
            for _ in range(ctx.n(40, 150)):
                cl, kind = corrupt(rng, fmt, lines)
                if not ascii_ok(cl):
                    continue
                o = impl_line(fmt, cl)[0]
                reqs.append(f"traj {fmt} {mode} {tokens(fmt, cl)}")
                outs.append(o)
                nontriv.append(True)
                classes.append(f"corrupt:{kind}/" + ("LE" if " LE" in o else "done"))
        if fmt == "pdb":
            # MODEL / ENDMDL trajectories (the shape of `pdb_models_roundtrip`): whole and at every cut point
            for _ in range(ctx.n(8, 40)):
                nf = rng.randint(1, 6)
                lines, _st = render_pdb_models(rng, nf)
                if not ascii_ok(lines):
                    continue
                tk = tokens(fmt, lines)
                reqs.append(f"traj {fmt} {mode} {tk}")
                outs.append(impl_line(fmt, lines)[0])
                nontriv.append(nf >= 2)
                classes.append(f"models/{nf}frames")
                if len(lines) <= 120:
                    creqs.append(f"trajc {fmt} {mode} {tk}")
                    couts.append("|".join(impl_line(fmt, lines[:k])[0] for k in range(len(lines) + 1)))
                    cnt.append(True)
                    ccls.append("all-cuts/models")
                    ncuts += len(lines) + 1
        # corpus trajectory files
        for p in corpus_files(fmt):
            lines = open(p).readlines()
            if not ascii_ok(lines) or len(lines) > 400:
                continue
            et = lines[1] if fmt == "extxyz" and len(lines) > 1 else EXT_TITLE
            if fmt == "extxyz" and len({l for l in lines if "Properties=" in l}) > 1:
                continue  # atom-line validity depends on the frame's own title
            creqs.append(f"trajc {fmt} {mode} {tokens(fmt, lines, et)}")
            couts.append("|".join(impl_line(fmt, lines[:k])[0] for k in range(len(lines) + 1)))
            cnt.append(True)
            ccls.append("all-cuts/corpus")
            ncuts += len(lines) + 1
        ctx.corr(f"traj:{fmt}", reqs, outs, nontriv, classes)
        ctx.corr(f"trajc:{fmt}", creqs, couts, cnt, ccls)
        ctx.extra_cov[f"cut_points:{fmt}"] = ncuts
    corr_dump(ctx)
    corr_fchk(ctx)


def corpus_files(fmt):
    from ..corpus import DATA

    names = {
        "xyz": ["water_trajectory.xyz", "dataset_blanklines.xyz", "water.xyz", "water_element.xyz", "water_number.xyz"],
        "extxyz": ["water_extended_trajectory.xyz", "mgo.xyz"],
        "sdf": ["example.sdf", "formamide.sdf"],
        "gromacs": ["water.gro", "water2.gro"],
        "pdb": ["water_trajectory.pdb", "water_trajectory_no_model.pdb", "water_single.pdb", "water_single_model.pdb",
                "water_single_no_end.pdb", "ch5plus.pdb", "indomethacin-dimer.pdb"],
        "mol2": ["caffeine.mol2", "benzene.mol2", "silioh3.mol2", "water.mol2"],
    }[fmt]
    return [DATA / n for n in names if (DATA / n).exists()]


# ---- dump_many consumption trace ----------------------------------------------------
class _Recorder:
    def __init__(self, fmt, fn):
        self.events = []
        self.fmt = fmt
        self.fn = fn
        self.index = {}

    def pull(self, i):
        self.events.append(f"p{i}")

    @contextlib.contextmanager
    def installed(self):
        import iodata.api as api

        mod = _mod(self.fmt)
        orig_check, orig_dump = api._check_required, mod.dump_one
        rec = self

        def check(filename, data, dump_func):
            rec.events.append(f"c{rec.index.get(id(data), '?')}")
            return orig_check(filename, data, dump_func)

        def dump_one(f, data, *a, **k):
            if "o" not in rec.events:
                rec.events.append("o")
            rec.events.append(f"w{rec.index.get(id(data), '?')}")
            return orig_dump(f, data, *a, **k)

        api._check_required, mod.dump_one = check, dump_one
        try:
            yield
        finally:
            api._check_required, mod.dump_one = orig_check, orig_dump


class _Boom(Exception):
    pass


def impl_dump_trace(fmt, frames, valid, boom, kind):
    """Run the real dump_many on marker frames; returns the canonical line."""
    from iodata import dump_many
    from iodata.utils import DumpError, PrepareDumpError

    fn = os.path.join(_tmpdir(), f"m{os.getpid()}.{fmt}")
    if os.path.exists(fn):
        os.unlink(fn)
    rec = _Recorder(fmt, fn)
    items = []
    for i, (f, v) in enumerate(zip(frames, valid)):
        if not v:
            f.atcoords = None  # fails _check_required
        rec.index[id(f)] = i
        items.append(f)

    class It:
        def __init__(self):
            self.i = 0

        def __iter__(self):
            return self

        def __next__(self):
            rec.pull(self.i)
            k = self.i
            self.i += 1
            if k < len(items):
                return items[k]
            if boom:
                raise _Boom()
            raise StopIteration

    def gen():
        it = It()
        while True:
            try:
                x = next(it)
            except StopIteration:
                return
            yield x

    class Lst(list):
        """a list whose iterator reports pulls (dump_many calls iter() on it)"""

        def __iter__(self):
            return It()

    src = {"iterator": It(), "generator": gen(), "list": Lst(items)}[kind]
    final = "ok"
    with warnings.catch_warnings():
        warnings.simplefilter("ignore")
        with rec.installed():
            try:
                dump_many(src, fn, fmt=fmt)
            except PrepareDumpError:
                final = "PrepareDumpError"
            except DumpError as exc:
                final = "DumpError:empty" if "at least one" in str(exc) else "DumpError:uncaught"
            except _Boom:
                final = "IterRaised"
            except Exception as exc:
                final = "Other:" + type(exc).__name__
    opened = os.path.exists(fn)
    evs = list(rec.events)
    if opened and "o" not in evs:
        # the file was opened but nothing was written: place `open` after the first check
        k = evs.index("c0") + 1 if "c0" in evs else len(evs)
        evs.insert(k, "o")
    if opened or final in ("PrepareDumpError",) and "o" in evs:
        evs.append("x")
    elif final == "PrepareDumpError" and len([e for e in evs if e.startswith("c")]) > 1:
        evs.append("x")
    written = open(fn).readlines() if opened else []
    return final, opened, evs, written


def corr_dump(ctx):
    rng = ctx.rng
    reqs, outs, classes = [], [], []
    for _ in range(ctx.n(600, 8000)):
        fmt = rng.choice(DUMPERS)
        n = rng.choice([0, 1, 1, 2, 3, 4, 6, 10] + ([50] if rng.random() < 0.1 else []))
        frames = [rand_frame(rng, i, fmt) for i in range(n)]
        valid = [True] * n
        cls = "all-valid"
        if n and rng.random() < 0.3:
            j = rng.randrange(n)
            valid[j] = False
            cls = "invalid-first" if j == 0 else "invalid-later"
        boom = rng.random() < 0.3
        kind = rng.choice(["iterator", "generator", "list"]) if not boom else rng.choice(["iterator", "generator"])
        lens = [len(real_dump_one(fmt, f)) if v else 0 for f, v in zip(frames, valid)]
        final, opened, evs, written = impl_dump_trace(fmt, frames, valid, boom, kind)
        # the model writes len_i copies of the line "i"; map the real file to that abstraction through dump_one
        expect_lines = []
        pos = 0
        wl = []
        ok_map = True
        for e in evs:
            if e.startswith("w"):
                i = int(e[1:])
                one = real_dump_one(fmt, frames[i])
                if written[pos:pos + len(one)] != one:
                    ok_map = False
                wl += [str(i)] * len(one)
                pos += len(one)
        if pos != len(written):
            ok_map = False
        reqs.append(f"dumpm {''.join('1' if v else '0' for v in valid) or '@'} {int(boom)} "
                    f"{','.join(map(str, lens)) or '@'}")
        outs.append(f"{final} {int(opened)} {','.join(evs)} " + ((",".join(wl) or "-") if ok_map else "FILE-DIFFERS"))
        classes.append(f"{kind}/{cls}/{'boom' if boom else 'finite'}/n={min(n, 10)}")
    ctx.corr("dumpm", reqs, outs, None, classes)


# ---- fchk --------------------------------------------------------------------------
def fchk_text(natom, prefix, pts, nsteps_field=True):
    def arr(label, kind, vals):
        out = ["%-43s%s   N=%12d\n" % (label, kind, len(vals))]
        per = 6 if kind == "I" else 5
        for i in range(0, len(vals), per):
            out.append("".join(("%12d" % v) if kind == "I" else ("%16.8E" % v) for v in vals[i:i + per]) + "\n")
        return out

    L = ["synthetic trajectory\n", "FOpt      RHF                                                         STO-3G\n",
         "%-43s%s%17d\n" % ("Number of atoms", "I", natom)]
    L += arr("Atomic numbers", "I", [1] * natom)
    L += arr("Nuclear charges", "R", [1.0] * natom)
    L += arr("Current cartesian coordinates", "R", [0.0] * (3 * natom))
    for ip, (nstep, p) in enumerate(pts):
        if p is None:
            continue
        nres, ngeo, ngrad = p
        L += arr(f"{prefix} {ip + 1:7d} Results for each geome", "R", [1000.0 * ip + k for k in range(nres)])
        L += arr(f"{prefix} {ip + 1:7d} Geometries", "R", [float(100 * ip + k // (3 * natom)) for k in range(ngeo)])
        L += arr(f"{prefix} {ip + 1:7d} Gradient at each geome", "R", [0.5] * ngrad)
    name = "IRC Number of geometries" if prefix == "IRC point" else "Optimization Number of geometries"
    if nsteps_field:
        L += arr(name, "I", [n for n, _ in pts])
    return L


def impl_fchk(lines, natom):
    from iodata import load_many
    from iodata.utils import LoadError, LoadWarning

    fn = os.path.join(_tmpdir(), f"f{os.getpid()}.fchk")
    with open(fn, "w") as fh:
        fh.write("".join(lines))
    tags = []
    final = "done"
    with warnings.catch_warnings(record=True) as wl:
        warnings.simplefilter("always")
        try:
            seen = 0
            for m in load_many(fn, fmt="fchk"):
                e = m.extra
                ip = int(e["ipoint"])
                w = int(any(issubclass(x.category, LoadWarning) for x in wl[seen:]))
                tags.append([ip, int(e["npoint"]), int(e["istep"]), int(e["nstep"]),
                             int(round(m.energy - 1000.0 * ip)), int(round(m.atcoords[0, 0] - 100 * ip)), w])
        except LoadError:
            final = "LE"
        except Exception as exc:
            final = "Other:" + type(exc).__name__
        nwarn = sum(1 for x in wl if issubclass(x.category, LoadWarning))
    # the warning flag of the model is per point: propagate the first frame's observation to the whole point
    first_w = {}
    seenw = 0
    for t in tags:
        pass
    return tags, nwarn, final


def corr_fchk(ctx):
    rng = ctx.rng
    reqs, outs, classes = [], [], []
    for _ in range(ctx.n(800, 10000)):
        natom = rng.randint(1, 4)
        npt = rng.choice([1, 1, 2, 3, 5])
        prefix = rng.choice(["Opt point", "IRC point"])
        pts = []
        cls = "consistent"
        for ip in range(npt):
            ns = rng.randint(1, 6)
            nres, ngeo, ngrad = 2 * ns, 3 * natom * ns, 3 * natom * ns
            nstep = ns
            r = rng.random()
            if r < 0.12:
                nstep = ns + rng.choice([-1, 1, 2])
                cls = "nstep-inconsistent"
            elif r < 0.2:
                nres += rng.choice([-2, -1, 1, 2])
                cls = "results-length"
            elif r < 0.28:
                ngeo += rng.choice([-3 * natom, 3 * natom, 1])
                cls = "geometries-length"
            elif r < 0.34:
                ngrad += rng.choice([-3 * natom, 3 * natom, 2])
                cls = "gradient-length"
            elif r < 0.38:
                pts.append((max(nstep, 0), None))
                cls = "missing-point"
                continue
            pts.append((max(nstep, 0), (max(nres, 0), max(ngeo, 0), max(ngrad, 0))))
        lines = fchk_text(natom, prefix, pts)
        tags, nwarn, final = impl_fchk(lines, natom)
        # per-point warning flag as the model defines it
        warned_pts = set()
        for (nstep, p), ip in zip(pts, range(len(pts))):
            pass
        model_like = []
        for t in tags:
            model_like.append(t)
        # frames of a point: flag = (nstep of the frame != announced nstep)
        out_tags = ",".join(
            f"{t[0]}.{t[1]}.{t[2]}.{t[3]}.{2 * t[4] if False else t[4]}.{t[5]}.{int(t[3] != pts[t[0]][0])}" for t in tags)
        reqs.append(f"fchkm {natom} " + ",".join(
            (f"{n}:{p[0]}:{p[1]}:{p[2]}" if p is not None else f"{n}:-") for n, p in pts))
        outs.append(f"{final} {nwarn} " + (out_tags or "-"))
        classes.append(f"{prefix.split()[0]}/{cls}/npoint={npt}")
    ctx.corr("fchkm", reqs, outs, None, classes)


# ======================================================================================
# S: the property's own predicate on the real code
# ======================================================================================
def _snap(m):
    from ..snapshot import snap

    return snap(m)


def _load_one_file(fmt, lines):
    from iodata import load_one

    fn = os.path.join(_tmpdir(), f"s{os.getpid()}.{fmt}")
    with open(fn, "w") as fh:
        fh.write("".join(lines))
    with warnings.catch_warnings():
        warnings.simplefilter("ignore")
        return load_one(fn, fmt=fmt)


def _in_domain(fmt, f):
    t = f.title
    if t is not None and "\n" in t and fmt != "pdb":
        return False
    if fmt == "pdb" and f.natom == 0:
        return False
    return True


def check_roundtrip(fmt, frames, as_gen):
    """dump_many -> load_many equals per-frame dump_one -> load_one. Returns None or (sig, what)."""
    lines = real_dump_many(fmt, frames, as_gen)
    per = [real_dump_one(fmt, f) for f in frames]
    if lines != [l for p in per for l in p]:
        return (f"dump_many:{fmt}:not-concatenation", "the file written by dump_many is not the concatenation of the "
                "per-frame dump_one files in iteration order")
    got, final = impl_load_many(fmt, lines)
    if final != "done":
        return (f"load_many:{fmt}:roundtrip-error", f"reading back a file written by dump_many ends with {final}")
    if len(got) != len(frames):
        return (f"load_many:{fmt}:roundtrip-count", f"{len(frames)} frames written, {len(got)} read back")
    from ..snapshot import first_diff

    for i, (g, p) in enumerate(zip(got, per)):
        one = _load_one_file(fmt, p)
        d = first_diff(_snap(g[4]), _snap(one))
        if d:
            return (f"load_many:{fmt}:roundtrip-frame", f"frame {i} differs from its single-file load at {d}")
    return None


def frame_extents(fmt, lines, starts):
    """per frame (begin, end): a cut k is inside the frame iff begin < k < end (begin = index after which the
    reader has started the frame, end = index after the last line carrying data of the frame)."""
    out = []
    bounds = starts[1:] + [len(lines)]
    for s0, e0 in zip(starts, bounds):
        if fmt in ("xyz", "extxyz"):
            out.append((s0, s0 + int(lines[s0]) + 2))
        elif fmt == "gromacs":
            out.append((s0, s0 + int(lines[s0 + 1]) + 3))
        elif fmt == "sdf":
            out.append((s0, _sdf_end(lines, s0)))
        elif fmt == "pdb":
            ia = next(i for i in range(s0, e0) if lines[i].startswith(("ATOM", "HETATM")))
            ie = next((i for i in range(ia, e0) if lines[i].startswith("END")), None)
            out.append((ia, ie + 1 if ie is not None else len(lines) + 1))
        elif fmt == "mol2":
            im = next(i for i in range(s0, e0) if lines[i].split()[:1] == ["@<TRIPOS>MOLECULE"])
            w = lines[im + 2].split()
            na, nb = int(w[0]), int(w[1])
            ia = next(i for i in range(im + 3, e0) if lines[i].split()[:1] == ["@<TRIPOS>ATOM"])
            end = ia + 1 + na
            ib = next((i for i in range(ia + 1 + na, e0) if lines[i].split()[:1] == ["@<TRIPOS>BOND"]), None)
            if ib is not None:
                end = ib + 1 + nb
            out.append((im, end))
    return out


def check_cuts_and_corruptions(ctx, fmt, lines, nframes, label, starts=None, cut_points=None):
    """truncation at line boundaries: never a silent short sequence, never a partial frame without warning."""
    fails = []
    starts = starts if starts is not None else frame_spans(fmt, lines)
    full, ffinal = impl_load_many(fmt, lines)
    if ffinal != "done" or len(full) != nframes:
        return [(f"load_many:{fmt}:complete-file", f"{label}: complete file gives {len(full)} frames / {ffinal}",
                 {"fmt": fmt, "lines": lines, "kind": "file"})]
    ext = frame_extents(fmt, lines, starts)
    full_snaps = [_snap(x[4]) for x in full]
    for k in (cut_points if cut_points is not None else range(len(lines) + 1)):
        got, final = impl_load_many(fmt, lines[:k])
        ncomplete = sum(1 for _, e in ext if e <= k)
        inside = any(b < k < e for b, e in ext)
        if inside and fmt in ("xyz", "extxyz", "sdf", "gromacs"):
            b0 = max(b for b, e in ext if b < k < e)
            if all(l.strip() == "" for l in lines[b0:k]):
                inside = False  # only blank lines of the next frame are left: a clean end
        cls = "cut-inside" if inside else "cut-boundary"
        ctx.count(f"search-cut:{fmt}", [label, k], f"{cls}/{final[:2]}", nontrivial=True)
        what = None
        if final.startswith("Other"):
            what = ("exception-class", f"{final} escapes load_many")
        elif len(got) < ncomplete:
            what = ("frame-dropped", f"{ncomplete} complete frames in the file, {len(got)} yielded, outcome {final}")
        elif any(_snap(g[4]) != full_snaps[i] for i, g in enumerate(got[:ncomplete])):
            what = ("frame-changed", "a complete frame of a truncated file differs from the same frame of the whole file")
        elif inside:
            if final == "done" and len(got) == ncomplete:
                what = ("incomplete-frame-silent-end", f"file cut inside frame {ncomplete}: the sequence ends after "
                        f"{len(got)} frames without LoadError")
            elif len(got) > ncomplete and not got[-1][3]:
                what = ("partial-frame-no-warning", f"file cut inside frame {ncomplete}: a partial frame is yielded "
                        "without warning or error")
        else:
            none_yet = fmt in ("pdb", "mol2") and ncomplete == 0
            if len(got) != ncomplete:
                what = ("extra-frame", f"{ncomplete} complete frames, {len(got)} yielded")
            elif final != "done" and not none_yet:
                what = ("complete-file-rejected", f"a file of {ncomplete} complete frames ends with {final}")
            elif final == "done" and none_yet:
                what = ("no-molecule-accepted", "a file without any molecule yields no frame and no error")
        if what:
            fails.append((f"load_many:{fmt}:{what[0]}", f"{label} cut after line {k}: {what[1]}",
                          {"fmt": fmt, "lines": lines[:k], "kind": "cut"}))
    return fails


def search(ctx):
    rng = ctx.rng
    mult = 4 if ctx.escalated else 1
    # 1. dump_many -> load_many == per-frame dump_one -> load_one
    for fmt in DUMPERS:
        for it in range(ctx.n(300, 4000) * mult):
            n = rng.choice([1, 1, 2, 3, 5, 8] + ([50] if rng.random() < 0.06 else []))
            frames = [rand_frame(rng, i, fmt) for i in range(n)]
            r = check_roundtrip(fmt, frames, rng.random() < 0.5)
            ctx.count(f"search-roundtrip:{fmt}", [fmt, it, n], "ok" if r is None else r[0], nontrivial=n >= 2,
                      sample={"fmt": fmt, "nframes": n, "titles": [f.title for f in frames][:6]})
            if r:
                ctx.fail(r[0], r[1], {"kind": "roundtrip", "fmt": fmt, "seed": ctx.seed,
                                      "frames": [[f.title, f.natom] for f in frames]})
    # 2. pulls from the iterable are counted: lazy, exactly once, file opened after the first check
    for fmt in DUMPERS:
        for it in range(ctx.n(250, 3000) * mult):
            n = rng.choice([1, 2, 3, 6])
            boom = rng.random() < 0.4
            frames = [rand_frame(rng, i, fmt) for i in range(n)]
            final, opened, evs, written = impl_dump_trace(fmt, frames, [True] * n, boom, rng.choice(["iterator", "generator"]))
            exp = ["p0", "c0", "o", "w0"] + [x for i in range(1, n) for x in (f"p{i}", f"c{i}", f"w{i}")] + [f"p{n}", "x"]
            ok = evs == exp and final == ("DumpError:uncaught" if boom else "ok")
            ctx.count(f"search-lazy:{fmt}", [fmt, n, boom, it], "ok" if ok else "bad")
            if not ok:
                ctx.fail(f"dump_many:{fmt}:consumption", f"dump_many consumption trace {evs} / {final}, expected {exp}",
                         {"kind": "lazy", "fmt": fmt, "n": n, "boom": boom})
    # 3. generated files: every cut, corruption
    for fmt in LOADERS:
        for it in range(ctx.n(30, 250) * mult):
            nf = rng.choice([1, 2, 3, 4, 6])
            lines, meta, frames = make_file(rng, fmt, nf)
            if frames is not None and not all(_in_domain(fmt, f) for f in frames):
                continue
            for sig, what, inp in check_cuts_and_corruptions(ctx, fmt, lines, nf, f"generated#{it}"):
                ctx.fail(sig, what, inp)
            for _ in range(ctx.n(10, 60)):
                cl, kind = corrupt(rng, fmt, lines)
                if kind not in ("count", "field"):
                    continue
                r = check_corruption(fmt, lines, cl, nf)
                ctx.count(f"search-corrupt:{fmt}", [fmt, cl], kind + "/" + ("ok" if r is None else r[0]))
                if r:
                    ctx.fail(f"load_many:{fmt}:{r[0]}", r[1], {"kind": "file", "fmt": fmt, "lines": cl})
    # 3c. whitespace-split atom records that are too short (a deleted field, a cut inside the line) must raise
    for fmt in ("xyz", "extxyz"):
        for it in range(ctx.n(40, 300) * mult):
            nf = rng.choice([1, 2, 3, 4])
            lines, meta, frames = make_file(rng, fmt, nf)
            starts = frame_spans(fmt, lines)
            k = rng.randrange(len(starts))
            a0 = starts[k]
            b0 = starts[k + 1] if k + 1 < len(starts) else len(lines)
            atoms = [i for i in range(a0 + 2, b0) if len(lines[i].split()) >= 4]
            if not atoms:
                continue
            i = rng.choice(atoms)
            cl = list(lines)
            mode = rng.choice(["delete-field", "cut-midline"])
            if mode == "delete-field":
                w = cl[i].split()
                del w[rng.randrange(1, len(w))]
                cl[i] = " ".join(w) + "\n"
                bad = k
            else:
                i = [j for j in range(starts[-1] + 2, len(lines)) if len(lines[j].split()) >= 4][-1:]
                if not i:
                    continue
                i = i[0]
                w = lines[i].split()
                cl = lines[:i] + [" ".join(w[: rng.randrange(1, len(w))])]  # no newline: the file ends inside the line
                bad = len(starts) - 1
            got, final = impl_load_many(fmt, cl)
            ok = len(got) <= bad and final != "done"
            ctx.count(f"search-short-record:{fmt}", [fmt, cl], mode + "/" + ("ok" if ok else "accepted"))
            if not ok:
                ctx.fail(f"load_many:{fmt}:short-atom-record-accepted",
                         f"{mode} in frame {bad}: {len(got)} frames yielded, final {final}; an atom record with too few fields "
                         "must raise LoadError, not yield a frame with made-up values",
                         {"kind": "file-short", "fmt": fmt, "lines": cl, "bad": bad})
    # 3d. extended XYZ: frames with byte-identical comment lines and a user-defined per-atom column keep their own data
    for it in range(ctx.n(12, 100) * mult):
        nf = rng.choice([2, 3, 5])
        n = rng.choice([1, 2, 4])
        title = 'Properties=species:S:1:pos:R:3:vel:R:3:tag:I:1 pbc="T T F"\n'
        lines, per = [], []
        for f in range(nf):
            fr = [f"{n}\n", title]
            for _ in range(n):
                fr.append("%s %.4f %.4f %.4f %.5f %.5f %.5f %d\n" % (
                    rng.choice(["H", "O", "C"]), rng.uniform(-5, 5), rng.uniform(-5, 5), rng.uniform(-5, 5),
                    rng.uniform(-1, 1), rng.uniform(-1, 1), rng.uniform(-1, 1), rng.randint(0, 9)))
            lines += fr
            per.append(fr)
        got, final = impl_load_many("extxyz", lines)
        bad = None
        if final != "done" or len(got) != nf:
            bad = f"{len(got)} frames, final {final}"
        else:
            from ..snapshot import first_diff

            for i, (g, fr) in enumerate(zip(got, per)):
                d = first_diff(_snap(g[4]), _snap(_load_one_file("extxyz", fr)))
                if d:
                    bad = f"frame {i} differs from its single-file load at {d}"
                    break
        ctx.count("search-extxyz-identical-titles", [lines], "ok" if bad is None else "BAD")
        if bad:
            ctx.fail("load_many:extxyz:frame-identity", "extended XYZ with identical comment lines and user columns: " + bad,
                     {"kind": "file-identity", "fmt": "extxyz", "lines": lines, "n": n})
    # 3b. MODEL / ENDMDL trajectories
    for it in range(ctx.n(10, 80) * mult):
        nf = rng.choice([1, 2, 3, 5])
        lines, starts = render_pdb_models(rng, nf)
        for sig, what, inp in check_cuts_and_corruptions(ctx, "pdb", lines, nf, f"models#{it}", starts=starts):
            ctx.fail(sig, what, inp)
    # 4. corpus trajectories: frame i == load_one of the i-th frame cut out; all cuts
    for fmt in LOADERS:
        for p in corpus_files(fmt):
            lines = open(p).readlines()
            if len(lines) > 400:
                continue
            full, final = impl_load_many(fmt, lines)
            starts = corpus_starts(fmt, lines)
            ok = final == "done" and len(full) == len(starts)
            ctx.count(f"search-corpus:{fmt}", [p.name], "ok" if ok else "count")
            if not ok:
                ctx.fail(f"load_many:{fmt}:corpus-count", f"{p.name}: {len(starts)} frames in the file, {len(full)} "
                         f"yielded ({final})", {"kind": "corpus", "fmt": fmt, "file": p.name})
                continue
            ends = starts[1:] + [len(lines)]
            from ..snapshot import first_diff

            for i, (s, e) in enumerate(zip(starts, ends)):
                try:
                    one = _load_one_file(fmt, lines[s:e])
                except Exception as exc:
                    ctx.fail(f"load_many:{fmt}:corpus-frame", f"{p.name} frame {i} alone does not load: {exc}",
                             {"kind": "corpus", "fmt": fmt, "file": p.name})
                    continue
                d = first_diff(_snap(full[i][4]), _snap(one))
                ctx.count(f"search-corpus-frame:{fmt}", [p.name, i], "ok" if not d else "differs")
                if d:
                    ctx.fail(f"load_many:{fmt}:corpus-frame", f"{p.name} frame {i} differs from its single-file load at {d}",
                             {"kind": "corpus", "fmt": fmt, "file": p.name, "frame": i})
            for sig, what, inp in check_cuts_and_corruptions(ctx, fmt, lines, len(starts), p.name, starts=starts):
                ctx.fail(sig, what, inp)
    search_numeric_fields(ctx)
    search_fchk(ctx)
    search_fchk_synthetic(ctx)


def corpus_starts(fmt, lines):
    if fmt in ("xyz", "extxyz"):
        out, i = [], 0
        while i < len(lines) and lines[i].strip():
            out.append(i)
            i += int(lines[i]) + 2
        return out
    if fmt == "gromacs":
        out, i = [], 0
        while i < len(lines) and lines[i].strip():
            out.append(i)
            i += int(lines[i + 1]) + 3
        return out
    if fmt == "sdf":
        out, i = [], 0
        while i < len(lines) and any(x.strip() for x in lines[i:]):
            out.append(i)
            i = _sdf_end(lines, i)
        return out
    if fmt == "pdb":
        out, start, found = [], 0, False
        for i, l in enumerate(lines):
            if l.startswith(("ATOM", "HETATM")):
                found = True
            if l.startswith("END") and found:
                out.append(start)
                start, found = i + 1, False
        if found:
            out.append(start)
        return out
    if fmt == "mol2":
        return [i for i, l in enumerate(lines) if l.split()[:1] == ["@<TRIPOS>MOLECULE"]]
    return []


def check_corruption(fmt, lines, cl, nf):
    """one corrupted count / numeric field: LoadError at or after the frame, frames before it unchanged;
    never fewer frames than complete ones without an error."""
    full, _ = impl_load_many(fmt, lines)
    got, final = impl_load_many(fmt, cl)
    if final.startswith("Other"):
        return ("exception-class", f"{final} escapes load_many")
    k = next((i for i, (a, b) in enumerate(zip(lines, cl)) if a != b), None)
    if k is None:
        return None
    starts = frame_spans(fmt, lines)
    bad = max(i for i, s in enumerate(starts) if s <= k)
    if len(got) < bad:
        return ("frame-dropped", f"frame {bad} corrupted, only {len(got)} frames yielded ({final})")
    for i in range(min(bad, len(got))):
        if _snap(got[i][4]) != _snap(full[i][4]):
            return ("frame-changed", f"frame {i} before the corrupted frame {bad} changed")
    if final == "done" and len(got) < nf:
        # the corrupted file still parses but yields fewer frames: only legitimate when the corrupted count itself
        # re-frames the rest consistently; a silent end right at the corrupted frame is the defect
        if len(got) == bad:
            return ("corrupt-frame-silent-end", f"frame {bad} corrupted: the sequence ends after {len(got)} frames "
                    "without LoadError")
    return None


_NUM_TOKEN = __import__("re").compile(r"[-+]?\d+\.\d+(?:[eE][-+]?\d+)?|[-+]?\d+")


def _numeric_part(o):
    """The numeric content of a loaded frame: int/float arrays and scalars of the object and of its `extra` dict."""
    import attrs

    out = {}
    for f in attrs.fields(type(o)):
        v = getattr(o, f.name)
        items = [(f.name, v)] if not isinstance(v, dict) else [(f"{f.name}.{k}", x) for k, x in v.items()]
        for name, x in items:
            if isinstance(x, np.ndarray) and x.dtype.kind in "fiu":
                out[name] = x.tolist()
            elif isinstance(x, (int, float)) and not isinstance(x, bool):
                out[name] = x
    return out


def garble_numeric_field(rng, fmt, lines, starts, full):
    """Pick a number printed in some frame.  If replacing one of its digits by another digit changes the numeric
    content of that frame (so the reader does read it as a number), return the file with that digit replaced by
    a letter: (lines, frame index, description); else None."""
    k = rng.randrange(len(starts))
    a = starts[k]
    b = starts[k + 1] if k + 1 < len(starts) else len(lines)
    i = rng.randrange(a, b)
    ms = list(_NUM_TOKEN.finditer(lines[i].rstrip("\n")))
    if not ms:
        return None
    if fmt == "mol2":
        sect = next((lines[j].split()[0] for j in range(i, a - 1, -1) if lines[j].startswith("@<TRIPOS>")), "")
        if sect == "@<TRIPOS>BOND":
            ms = ms[:3]  # the fourth column is a SYBYL bond-type symbol (1, 2, 3, am, ar, du, un, nc), not a number
    m = rng.choice(ms)
    tok = m.group()
    j = rng.choice([q for q, c in enumerate(tok) if c.isdigit()])
    alt = tok[:j] + str((int(tok[j]) + 1) % 10 or 1) + tok[j + 1:]
    cl = list(lines)
    cl[i] = lines[i][:m.start()] + alt + lines[i][m.end():]
    got, final = impl_load_many(fmt, cl)
    if final != "done" or len(got) != len(full) or _numeric_part(got[k][4]) == _numeric_part(full[k][4]):
        return None
    cl = list(lines)
    cl[i] = lines[i][:m.start()] + tok[:j] + "x" + tok[j + 1:] + lines[i][m.end():]
    return cl, k, f"line {i - a} of frame {k}: {tok!r} -> {tok[:j] + 'x' + tok[j + 1:]!r}"


def search_numeric_fields(ctx):
    """corruption of a single numeric field: a number the reader demonstrably reads (changing a digit changes the
    frame's numbers) made unreadable must raise LoadError when its frame is reached — never a made-up value."""
    rng = ctx.rng
    for fmt in LOADERS:
        for it in range(ctx.n(10, 80) * (3 if ctx.escalated else 1)):
            nf = rng.choice([2, 3, 4])
            lines, meta, frames = make_file(rng, fmt, nf)
            starts = frame_spans(fmt, lines)
            full, ffinal = impl_load_many(fmt, lines)
            if ffinal != "done" or len(full) != nf or len(starts) != nf:
                continue
            for _ in range(ctx.n(20, 40)):
                g = garble_numeric_field(rng, fmt, lines, starts, full)
                if g is None:
                    ctx.count(f"search-numeric-field:{fmt}", [fmt, it, _], "not-a-read-number", nontrivial=False)
                    continue
                cl, k, desc = g
                got, final = impl_load_many(fmt, cl)
                ok = final != "done" and not final.startswith("Other") and len(got) <= k
                ctx.count(f"search-numeric-field:{fmt}", [fmt, cl], "raised" if ok else "accepted")
                if not ok:
                    ctx.fail(f"load_many:{fmt}:unreadable-number-accepted",
                             f"{desc}: {len(got)} frames yielded, outcome {final}; expected LoadError at frame {k}",
                             {"kind": "file-short", "fmt": fmt, "lines": cl, "bad": k})


def search_fchk(ctx):
    from ..corpus import DATA
    from ..snapshot import first_diff

    # a per-atom array of a trajectory file announced with another length (the reader takes what it is told): every
    # frame's object is then inconsistent — LoadError, never another exception out of load_many
    import re as _re

    for name in ["peroxide_opt.fchk", "peroxide_relaxed_scan.fchk", "peroxide_irc.fchk", "peroxide_tsopt.fchk"]:
        pth = DATA / name
        if not pth.exists():
            continue
        flines = open(pth).readlines()
        for k, l in enumerate(flines):
            m = _re.match(r"^(Nuclear charges|Atomic numbers|Real atomic weights|Current cartesian coordinates)\s+[RI]\s+N=\s+(\d+)\s*$", l)
            if not m:
                continue
            for delta in (-1, 1):
                cl = list(flines)
                cl[k] = l[: m.start(2)] + str(int(m.group(2)) + delta).rjust(len(m.group(2))) + l[m.end(2):]
                tags, _nw, final = impl_fchk(cl, 4)
                ok = final in ("LE", "done")
                ctx.count("search-fchk-count", [name, k, delta], f"{m.group(1)}/{final.split(':')[0]}")
                if not ok:
                    ctx.fail(f"load_many:fchk:exception-class:{final.split(':')[-1]}",
                             f"{name}: `{m.group(1)}` announced with N={int(m.group(2)) + delta}: {final} escapes load_many",
                             {"kind": "fchk-count", "file": name, "line": k, "delta": delta})

    for name in ["peroxide_opt.fchk", "peroxide_relaxed_scan.fchk", "peroxide_irc.fchk", "peroxide_tsopt.fchk"]:
        p = DATA / name
        if not p.exists():
            continue
        lines = open(p).readlines()
        tags, nwarn, final = impl_fchk(lines, 4)
        # bookkeeping: ipoint ascending, istep = 0..nstep-1 within a point, npoint constant, counts add up
        ok = final == "done" and bool(tags)
        pos = {}
        for t in tags:
            ok = ok and t[2] == pos.get(t[0], 0) and t[2] < t[3]
            pos[t[0]] = t[2] + 1
        ok = ok and all(pos[i] == t3 for i, t3 in {t[0]: t[3] for t in tags}.items())
        ok = ok and sorted(pos) == list(range(tags[0][1] if tags else 0))[:len(pos)]
        ok = ok and [t[0] for t in tags] == sorted(t[0] for t in tags)
        ctx.count("search-fchk", [name], "ok" if ok else "bookkeeping")
        if not ok:
            ctx.fail("load_many:fchk:bookkeeping", f"{name}: point/step counters inconsistent: "
                     f"{[t[:4] for t in tags][:8]}", {"kind": "fchk", "file": name})
        # geometry of frame (ipoint, istep) equals the corresponding block of the file's Geometries array
        ok2 = fchk_blocks_ok(lines)
        ctx.count("search-fchk-blocks", [name], "ok" if ok2 is None else "bad")
        if ok2:
            ctx.fail("load_many:fchk:blocks", f"{name}: {ok2}", {"kind": "fchk", "file": name})
        cuts = range(len(lines) + 1) if ctx.thorough else sorted(ctx.rng.sample(range(len(lines) + 1), 60))
        ntot = len(tags)
        for k in cuts:
            t2, _, f2 = impl_fchk(lines[:k], 4)
            good = f2 == "LE" or (f2 == "done" and len(t2) == ntot)
            ctx.count("search-fchk-cut", [name, k], f2 + ("" if good else "/short"))
            if not good:
                ctx.fail("load_many:fchk:truncated-short", f"{name} cut after line {k}: {len(t2)} of {ntot} frames, {f2}",
                         {"kind": "fchk-cut", "file": name, "k": k})


def search_fchk_synthetic(ctx):
    """synthetic optimisation / IRC files, also with an inconsistent `Number of geometries` field: the counters of
    the frames must be consistent with the frames actually yielded (never with the announced number)."""
    rng = ctx.rng
    for it in range(ctx.n(150, 2000) * (4 if ctx.escalated else 1)):
        natom = rng.randint(1, 4)
        npt = rng.choice([1, 2, 3, 4])
        prefix = rng.choice(["Opt point", "IRC point"])
        pts = []
        for _ in range(npt):
            ns = rng.randint(1, 5)
            announced = ns if rng.random() < 0.6 else max(0, ns + rng.choice([-1, 1, 2]))
            pts.append((announced, (2 * ns, 3 * natom * ns, 3 * natom * ns)))
        tags, nwarn, final = impl_fchk(fchk_text(natom, prefix, pts), natom)
        want = [(ip, npt, st, p[0] // 2) for ip, (_, p) in enumerate(pts) for st in range(p[0] // 2)]
        got = [tuple(t[:4]) for t in tags]
        ok = final == "done" and got == want and all(t[4] == 2 * t[2] and t[5] == t[2] for t in tags) \
            and nwarn == sum(1 for a, p in pts if a != p[0] // 2)
        ctx.count("search-fchk-synthetic", [natom, prefix, pts], "ok" if ok else "bad",
                  sample={"natom": natom, "points": pts})
        if not ok:
            ctx.fail("load_many:fchk:counters", f"{prefix} file with points {pts}: frames (ipoint, npoint, istep, nstep) "
                     f"{got[:8]} / {final} / {nwarn} warnings, expected {want[:8]}",
                     {"kind": "fchk-synthetic", "natom": natom, "prefix": prefix, "pts": pts})


def fchk_blocks_ok(lines):
    from iodata import load_many
    from iodata.formats.fchk import _load_fchk_low

    fn = os.path.join(_tmpdir(), f"b{os.getpid()}.fchk")
    with open(fn, "w") as fh:
        fh.write("".join(lines))
    raw = _load_fchk_low(fake_lit(lines), ["Atomic numbers", "IRC *", "Optimization *", "Opt point *"])
    natom = raw["Atomic numbers"].size
    prefix = "IRC point" if "IRC Number of geometries" in raw else "Opt point"
    with warnings.catch_warnings():
        warnings.simplefilter("ignore")
        for m in load_many(fn, fmt="fchk"):
            ip, st = m.extra["ipoint"], m.extra["istep"]
            g = raw[f"{prefix} {ip + 1:7d} Geometries"].reshape(-1, natom, 3)[st]
            gr = raw[f"{prefix} {ip + 1:7d} Gradient at each geome"].reshape(-1, natom, 3)[st]
            en = raw[f"{prefix} {ip + 1:7d} Results for each geome"][2 * st]
            if not (np.array_equal(m.atcoords, g) and np.array_equal(m.atgradient, gr) and m.energy == en):
                return f"frame ipoint={ip} istep={st} does not carry block {st} of point {ip + 1}"
    return None


# ======================================================================================
def replay(ctx, obj):
    inp = obj["input"]
    kind = inp.get("kind")
    if kind in ("cut", "file"):
        fmt, lines = inp["fmt"], inp["lines"]
        got, final = impl_load_many(fmt, lines)
        sig = obj.get("signature", "")
        if sig.endswith("silent-end"):
            return final == "done"
        if sig.endswith("partial-frame-no-warning"):
            return final == "done" and bool(got) and not got[-1][3]
        return True
    if kind == "file-short":
        got, final = impl_load_many(inp["fmt"], inp["lines"])
        return not (len(got) <= inp["bad"] and final != "done")
    if kind == "file-identity":
        from ..snapshot import first_diff

        lines, n = inp["lines"], inp["n"]
        per = [lines[i:i + n + 2] for i in range(0, len(lines), n + 2)]
        got, final = impl_load_many("extxyz", lines)
        if final != "done" or len(got) != len(per):
            return True
        return any(first_diff(_snap(g[4]), _snap(_load_one_file("extxyz", fr))) for g, fr in zip(got, per))
    if kind == "fchk-count":
        from ..corpus import DATA
        import re as _re

        fl_ = open(DATA / inp["file"]).readlines()
        l = fl_[inp["line"]]
        m = _re.search(r"N=\s+(\d+)\s*$", l)
        fl_[inp["line"]] = l[: m.start(1)] + str(int(m.group(1)) + inp["delta"]).rjust(len(m.group(1))) + l[m.end(1):]
        return impl_fchk(fl_, 4)[2].startswith("Other")
    if kind == "fchk-synthetic":
        pts = [(a, tuple(p)) for a, p in inp["pts"]]
        tags, nwarn, final = impl_fchk(fchk_text(inp["natom"], inp["prefix"], pts), inp["natom"])
        want = [(ip, len(pts), st, p[0] // 2) for ip, (_, p) in enumerate(pts) for st in range(p[0] // 2)]
        return not (final == "done" and [tuple(t[:4]) for t in tags] == want)
    if kind == "lazy":
        rng = ctx.rng
        frames = [rand_frame(rng, i, inp["fmt"]) for i in range(inp["n"])]
        n = inp["n"]
        final, opened, evs, _ = impl_dump_trace(inp["fmt"], frames, [True] * n, inp["boom"], "iterator")
        exp = ["p0", "c0", "o", "w0"] + [x for i in range(1, n) for x in (f"p{i}", f"c{i}", f"w{i}")] + [f"p{n}", "x"]
        return evs != exp
    return True
