"""Static effect summary of the iodata package (translator for Gen/Effects.lean; C09, C16).

A deliberately simple, flow-insensitive, context-insensitive may-alias analysis over the ``ast``
of every module of the package:

* every local name has a *root*: ``fresh`` (a new object), ``shallow`` (a fresh container/object
  whose members alias argument data, e.g. the result of ``attrs.evolve(data, ...)`` or a list
  display holding tainted elements), ``arg`` (may alias something reachable from a tainted
  parameter) or ``glob`` (may alias a module-level mutable table);
* parameter taint is propagated through calls to other iodata functions to a fixed point, starting
  from the seeds (the ``data`` parameters of the dump API);
* an *effect site* is a store / augmented assignment / ``del`` through a subscript or attribute, or
  a mutating method / numpy in-place call, whose container expression has root ``arg`` or ``glob``.

Its completeness is NOT trusted: the dynamic deep-snapshot comparison in c09.py / c16.py is the
cross-check.
"""

from __future__ import annotations

import ast
import importlib
import pkgutil
from dataclasses import dataclass, field
from pathlib import Path

MUTATORS = {
    "append", "extend", "insert", "pop", "remove", "clear", "sort", "reverse", "update", "setdefault",
    "popitem", "fill", "resize", "put", "itemset", "add", "discard", "partition", "byteswap", "setflags",
    "setfield", "appendleft", "__setitem__", "__delitem__",
}
# methods whose result may alias (a part of) the receiver
ALIAS_METHODS = {
    "get", "setdefault", "pop", "values", "items", "keys", "reshape", "ravel", "view", "squeeze", "transpose",
    "swapaxes", "diagonal", "__getitem__", "flat", "real", "imag",
}
ALIAS_ATTRS_NUMPY = {"T", "flat", "real", "imag"}
# free functions whose result may alias an argument
ALIAS_FUNCS = {
    "asarray", "asanyarray", "ascontiguousarray", "atleast_1d", "atleast_2d", "atleast_3d", "reshape", "ravel",
    "transpose", "squeeze", "swapaxes", "iter", "reversed", "enumerate", "zip", "next", "getattr", "diagonal",
    "broadcast_to", "expand_dims", "moveaxis", "rollaxis", "split", "array_split", "hsplit", "vsplit",
}
SHALLOW_FUNCS = {"evolve", "list", "tuple", "dict", "sorted", "set", "copy", "asdict", "chain", "filter", "map"}
INPLACE_FUNCS = {"fill_diagonal", "put", "place", "copyto", "putmask", "shuffle", "put_along_axis"}
# calls that set interpreter- or library-wide state (numpy error mode / print options, warning filters outside a
# catch_warnings block, working directory, environment, locale, recursion limit, RNG seeds, decimal context)
PROCESS_GLOBAL_CALLS = {
    "seterr", "seterrcall", "set_printoptions", "setbufsize", "set_string_function", "simplefilter", "filterwarnings",
    "resetwarnings", "chdir", "putenv", "unsetenv", "umask", "setrecursionlimit", "setswitchinterval", "setlocale",
    "setcontext", "seed", "setdefaultencoding", "set_int_max_str_digits", "setprofile", "settrace",
}
PROCESS_GLOBAL_OBJECTS = ("os.environ", "sys.path", "sys.modules", "sys.argv", "warnings.filters", "sys.stdout", "sys.stderr")
MEMO_DECORATORS = ("lru_cache", "cache", "functools.lru_cache", "functools.cache")

ORDER = {"fresh": 0, "shallow": 1, "gshallow": 2, "arg": 3, "glob": 4}


def join(*rs):
    best = "fresh"
    for r in rs:
        if ORDER[r] > ORDER[best]:
            best = r
    return best


@dataclass
class Func:
    module: str
    qual: str
    node: ast.AST
    params: list
    is_method: bool = False
    is_setter: bool = False
    is_getter: bool = False
    cls: str | None = None
    tainted: set = field(default_factory=set)  # tainted parameter names
    gtainted: set = field(default_factory=set)  # parameters that may receive a module-level table
    returns: str = "fresh"  # root of the return value *relative to tainted params*


@dataclass(frozen=True)
class Site:
    module: str
    func: str
    kind: str  # store-subscript | store-attr | augassign | del | mutcall | inplace-func | out-kw
    root: str  # arg | glob
    target: str  # source text of the container / target expression
    line: int


class Package:
    def __init__(self, repo: Path):
        self.repo = Path(repo)
        self.funcs: dict[tuple, Func] = {}
        self.modglobals: dict[str, set] = {}  # module -> names of module-level mutable tables
        self.imports: dict[str, dict] = {}  # module -> local name -> (module, name) for from-imports of iodata
        self.modalias: dict[str, dict] = {}  # module -> local name -> iodata module
        self.trees: dict[str, ast.Module] = {}
        self._load()

    def _load(self):
        import iodata

        names = ["iodata." + m.name for m in pkgutil.walk_packages(iodata.__path__, "iodata.") if False]
        names = []
        for p in sorted((self.repo / "iodata").rglob("*.py")):
            rel = p.relative_to(self.repo).with_suffix("")
            if "test" in rel.parts:
                continue
            mod = ".".join(rel.parts)
            if mod.endswith(".__init__"):
                mod = mod[: -len(".__init__")]
            names.append((mod, p))
        for mod, p in names:
            tree = ast.parse(p.read_text())
            self.trees[mod] = tree
            self.imports[mod] = {}
            self.modalias[mod] = {}
            mutable = set()
            try:
                pymod = importlib.import_module(mod)
            except Exception:
                pymod = None
            for node in tree.body:
                if isinstance(node, ast.ImportFrom):
                    base = self._resolve_from(mod, node)
                    if base and base.startswith("iodata"):
                        for a in node.names:
                            self.imports[mod][a.asname or a.name] = (base, a.name)
                elif isinstance(node, ast.Import):
                    for a in node.names:
                        if a.name.startswith("iodata"):
                            self.modalias[mod][a.asname or a.name] = a.name
                elif isinstance(node, (ast.Assign, ast.AnnAssign)):
                    tgts = node.targets if isinstance(node, ast.Assign) else [node.target]
                    for t in tgts:
                        if isinstance(t, ast.Name):
                            val = getattr(pymod, t.id, None) if pymod else None
                            if pymod is None or _is_mutable(val):
                                mutable.add(t.id)
                elif isinstance(node, (ast.FunctionDef, ast.AsyncFunctionDef)):
                    self._add_func(mod, node.name, node, None)
                    mutable.add(node.name)  # a function object carries attributes: shared state like a class
                elif isinstance(node, ast.ClassDef):
                    mutable.add(node.name)
                    for sub in node.body:
                        if isinstance(sub, (ast.FunctionDef, ast.AsyncFunctionDef)):
                            self._add_func(mod, f"{node.name}.{sub.name}", sub, node.name)
            self.modglobals[mod] = mutable

    def _resolve_from(self, mod, node):
        if node.level == 0:
            return node.module
        parts = mod.split(".")
        # a module file: its package is parts[:-1]; __init__ handled as package itself
        is_pkg = (self.repo / Path(*parts) / "__init__.py").exists()
        pkg = parts if is_pkg else parts[:-1]
        pkg = pkg[: len(pkg) - (node.level - 1)]
        return ".".join(pkg + ([node.module] if node.module else []))

    def _add_func(self, mod, qual, node, cls):
        a = node.args
        params = [x.arg for x in a.posonlyargs + a.args + a.kwonlyargs]
        if a.vararg:
            params.append(a.vararg.arg)
        if a.kwarg:
            params.append(a.kwarg.arg)
        decos = [ast.unparse(d) for d in node.decorator_list]
        f = Func(mod, qual, node, params, cls is not None, any(d.endswith(".setter") for d in decos),
                 any(d == "property" for d in decos), cls)
        key = (mod, qual)
        if key in self.funcs and f.is_setter:
            key = (mod, qual + ".setter")
            f.qual = qual + ".setter"
        self.funcs[key] = f

    # ---------------------------------------------------------------
    def resolve_call(self, mod: str, func_expr: ast.AST) -> list[Func]:
        """iodata functions a call expression may refer to."""
        out = []
        if isinstance(func_expr, ast.Name):
            n = func_expr.id
            if (mod, n) in self.funcs:
                out.append(self.funcs[(mod, n)])
            elif n in self.imports[mod]:
                m2, n2 = self.imports[mod][n]
                if (m2, n2) in self.funcs:
                    out.append(self.funcs[(m2, n2)])
        elif isinstance(func_expr, ast.Attribute):
            v = func_expr.value
            if isinstance(v, ast.Name):
                if v.id in ("format_module",):
                    for (m, q), f in self.funcs.items():
                        if m.startswith("iodata.formats.") and q == func_expr.attr:
                            out.append(f)
                elif v.id in ("input_module",):
                    for (m, q), f in self.funcs.items():
                        if m.startswith("iodata.inputs.") and q == func_expr.attr:
                            out.append(f)
                elif v.id in self.imports[mod]:
                    m2, n2 = self.imports[mod][v.id]
                    cand = (m2 + "." + n2, func_expr.attr)
                    if cand in self.funcs:
                        out.append(self.funcs[cand])
                elif v.id in self.modalias[mod]:
                    cand = (self.modalias[mod][v.id], func_expr.attr)
                    if cand in self.funcs:
                        out.append(self.funcs[cand])
        return out


def _is_mutable(val):
    import numpy as np

    return isinstance(val, (dict, list, set, np.ndarray, bytearray))


class Analyzer:
    def __init__(self, pkg: Package):
        self.pkg = pkg
        self.sites: set[Site] = set()
        self.changed = False

    # -- roots of expressions -----------------------------------------
    def root(self, f: Func, env: dict, e: ast.AST) -> str:
        pkg = self.pkg
        if e is None:
            return "fresh"
        if isinstance(e, ast.Name):
            if e.id in env:
                r0 = env[e.id]
                if r0 == "fresh" and any(isinstance(k, tuple) and k[0] == e.id and v != "fresh" for k, v in env.items()):
                    return "shallow"
                return r0
            if e.id in pkg.modglobals[f.module]:
                return "glob"
            if e.id in pkg.imports[f.module]:
                m2, n2 = pkg.imports[f.module][e.id]
                if n2 in pkg.modglobals.get(m2, ()):
                    return "glob"
            return "fresh"
        if isinstance(e, ast.Attribute):
            if e.attr == "__class__":
                return "glob"
            r = self.root(f, env, e.value)
            if r == "fresh" and isinstance(e.value, ast.Name):
                # module.TABLE
                tgt = pkg.modalias[f.module].get(e.value.id)
                if tgt is None and e.value.id in pkg.imports[f.module]:
                    m2, n2 = pkg.imports[f.module][e.value.id]
                    tgt = m2 + "." + n2
                if tgt and e.attr in pkg.modglobals.get(tgt, ()):
                    return "glob"
            return "arg" if r == "shallow" else ("glob" if r == "gshallow" else r)
        if isinstance(e, ast.Subscript):
            p = self.path(e)
            if p is not None and env.get(p[0], "fresh") == "fresh" and not self.is_global(f, p[0]):
                # constant-key path of a fresh local container
                for k in range(len(p), 1, -1):
                    if p[:k] in env:
                        r = env[p[:k]]
                        return r if k == len(p) else self.elem(r)
                return "fresh"
            r = self.root(f, env, e.value)
            return "arg" if r == "shallow" else ("glob" if r == "gshallow" else r)
        if isinstance(e, ast.Starred):
            return self.root(f, env, e.value)
        if isinstance(e, (ast.IfExp,)):
            return join(self.root(f, env, e.body), self.root(f, env, e.orelse))
        if isinstance(e, ast.BoolOp):
            return join(*(self.root(f, env, v) for v in e.values))
        if isinstance(e, ast.NamedExpr):
            return self.root(f, env, e.value)
        if isinstance(e, (ast.List, ast.Tuple, ast.Set)):
            rs = [self.root(f, env, x) for x in e.elts]
            if any(r in ("glob", "gshallow") for r in rs):
                return "gshallow"
            return "shallow" if any(r in ("arg", "shallow") for r in rs) else "fresh"
        if isinstance(e, ast.Dict):
            rs = [self.root(f, env, x) for x in e.values if x is not None]
            if any(r in ("glob", "gshallow") for r in rs):
                return "gshallow"
            return "shallow" if any(r in ("arg", "shallow") for r in rs) else "fresh"
        if isinstance(e, (ast.ListComp, ast.SetComp, ast.GeneratorExp, ast.DictComp)):
            env2 = dict(env)
            for g in e.generators:
                self.bind(f, env2, g.target, self.elem(self.root(f, env2, g.iter)))
            elts = [e.elt] if not isinstance(e, ast.DictComp) else [e.key, e.value]
            rs = [self.root(f, env2, x) for x in elts]
            return "shallow" if any(r in ("arg", "shallow", "glob") for r in rs) else "fresh"
        if isinstance(e, ast.Call):
            fn = e.func
            if isinstance(fn, ast.Name) and fn.id == "type" and len(e.args) == 1:
                return "glob"  # type(obj): the class object is shared state
            argroots = [self.root(f, env, a) for a in e.args] + [self.root(f, env, k.value) for k in e.keywords]
            if isinstance(fn, ast.Attribute):
                recv = self.root(f, env, fn.value)
                if fn.attr in ALIAS_METHODS and recv != "fresh":
                    return "arg" if recv == "shallow" else recv
                if fn.attr in ALIAS_FUNCS:  # np.asarray(x) etc.
                    r = join(*argroots) if argroots else "fresh"
                    return "arg" if r == "shallow" else r
                if fn.attr in SHALLOW_FUNCS:
                    return "shallow" if any(r != "fresh" for r in argroots + [recv]) else "fresh"
            if isinstance(fn, ast.Name):
                if fn.id in ALIAS_FUNCS:
                    r = join(*argroots) if argroots else "fresh"
                    return "arg" if r == "shallow" else r
                if fn.id in SHALLOW_FUNCS:
                    return "shallow" if any(r != "fresh" for r in argroots) else "fresh"
            last = fn.attr if isinstance(fn, ast.Attribute) else (fn.id if isinstance(fn, ast.Name) else "")
            if last[:1].isupper() and not last.isupper():
                # a class constructor: the new object holds references to its arguments
                if any(r in ("glob", "gshallow") for r in argroots):
                    return "gshallow"
                if any(r in ("arg", "shallow") for r in argroots):
                    return "shallow"
                return "fresh"
            callees = self.pkg.resolve_call(f.module, fn)
            if callees:
                rs = []
                for c in callees:
                    if c.returns != "fresh" and any(r != "fresh" for r in argroots):
                        rs.append(c.returns if c.returns != "glob" else "glob")
                    elif c.returns in ("glob", "gshallow"):
                        rs.append(c.returns)
                return join(*rs) if rs else "fresh"
            return "fresh"
        return "fresh"

    @staticmethod
    def path(e):
        keys = []
        while isinstance(e, ast.Subscript):
            if isinstance(e.slice, ast.Constant):
                keys.append(e.slice.value)
            else:
                return None
            e = e.value
        if isinstance(e, ast.Name) and keys:
            return (e.id, *reversed(keys))
        return None

    def is_global(self, f, name):
        if name in self.pkg.modglobals[f.module]:
            return True
        if name in self.pkg.imports[f.module]:
            m2, n2 = self.pkg.imports[f.module][name]
            return n2 in self.pkg.modglobals.get(m2, ())
        return False

    @staticmethod
    def elem(r):
        return "arg" if r == "shallow" else ("glob" if r == "gshallow" else r)

    def bind(self, f, env, target, r):
        if isinstance(target, ast.Name):
            new = join(env.get(target.id, "fresh"), r)
            if env.get(target.id) != new:
                env[target.id] = new
                self.env_changed = True
        elif isinstance(target, (ast.Tuple, ast.List)):
            for t in target.elts:
                self.bind(f, env, t, self.elem(r))
        elif isinstance(target, ast.Starred):
            self.bind(f, env, target.value, self.elem(r))

    def absorb(self, f, env, target, r):
        """A tainted value stored into a fresh local container makes the container shallow."""
        if r == "fresh" or not isinstance(target, (ast.Subscript, ast.Attribute)):
            return
        p = self.path(target)
        if p is not None and p[0] in env and env[p[0]] == "fresh" and not self.is_global(f, p[0]):
            new = join(env.get(p, "fresh"), r)
            if env.get(p) != new:
                env[p] = new
                self.env_changed = True
            return
        cp = self.path(target.value)
        if cp is not None and cp[0] in env and env[cp[0]] == "fresh" and not self.is_global(f, cp[0]):
            # non-constant key inside a constant-path container: that container becomes shallow
            new = join(env.get(cp, "fresh"), "shallow")
            if env.get(cp) != new:
                env[cp] = new
                self.env_changed = True
            return
        base = target.value
        while isinstance(base, (ast.Subscript, ast.Attribute)):
            base = base.value
        if isinstance(base, ast.Name) and not self.is_global(f, base.id) and env.get(base.id, "fresh") == "fresh":
            env[base.id] = "shallow"
            self.env_changed = True

    # -- one function ---------------------------------------------------
    def analyze(self, f: Func):
        env = {p: "arg" for p in f.tainted}
        for p in f.gtainted:
            env[p] = join(env.get(p, "fresh"), "glob")
        for p in f.params:
            env.setdefault(p, "fresh")
        # a mutable default value is one object shared by all calls
        a = f.node.args
        pos = a.posonlyargs + a.args
        for prm, dflt in list(zip(pos[len(pos) - len(a.defaults):], a.defaults)) + [
                (k, d) for k, d in zip(a.kwonlyargs, a.kw_defaults) if d is not None]:
            if isinstance(dflt, (ast.Dict, ast.List, ast.Set, ast.ListComp, ast.DictComp, ast.SetComp)) or (
                    isinstance(dflt, ast.Call) and ast.unparse(dflt.func).split(".")[-1] in (
                        "dict", "list", "set", "defaultdict", "OrderedDict", "zeros", "empty", "array", "deque")):
                env[prm.arg] = join(env[prm.arg], "glob")
        # calls lexically inside `with warnings.catch_warnings(...)`: the filter list is restored on exit
        self.cw_exempt = set()
        for w in ast.walk(f.node):
            if isinstance(w, (ast.With, ast.AsyncWith)) and any(
                    isinstance(it.context_expr, ast.Call) and ast.unparse(it.context_expr.func).endswith("catch_warnings")
                    for it in w.items):
                for n in ast.walk(w):
                    if isinstance(n, ast.Call):
                        self.cw_exempt.add(id(n))
        for d in f.node.decorator_list:
            dn = ast.unparse(d.func if isinstance(d, ast.Call) else d)
            if dn in MEMO_DECORATORS or dn.split(".")[-1] in ("lru_cache", "cache"):
                self.sites.add(Site(f.module, f.qual, "memoised:" + dn.split(".")[-1], "glob", f.qual, f.node.lineno))
        self.ret = "fresh"
        self.run_block(f, f.node.body, env, True)
        if ORDER[self.ret] > ORDER[f.returns]:
            f.returns = self.ret
            self.changed = True

    def run_block(self, f, stmts, env, record):
        for st in stmts:
            self.run_stmt(f, st, env, record)

    def run_stmt(self, f, st, env, record):
        if isinstance(st, (ast.For, ast.AsyncFor)):
            self.simple(f, st.iter, env, record)
            self.bind(f, env, st.target, self.elem(self.root(f, env, st.iter)))
            self.run_block(f, st.body, env, False)  # back edge: reach the loop-body fixed point first
            self.run_block(f, st.body, env, False)
            self.run_block(f, st.body, env, record)
            self.run_block(f, st.orelse, env, record)
        elif isinstance(st, ast.While):
            self.simple(f, st.test, env, record)
            self.run_block(f, st.body, env, False)
            self.run_block(f, st.body, env, False)
            self.run_block(f, st.body, env, record)
            self.run_block(f, st.orelse, env, record)
        elif isinstance(st, ast.If):
            self.simple(f, st.test, env, record)
            self.run_block(f, st.body, env, record)
            self.run_block(f, st.orelse, env, record)
        elif isinstance(st, (ast.With, ast.AsyncWith)):
            for it in st.items:
                self.simple(f, it.context_expr, env, record)
                if it.optional_vars is not None:
                    self.bind(f, env, it.optional_vars, self.root(f, env, it.context_expr))
            self.run_block(f, st.body, env, record)
        elif isinstance(st, ast.Try):
            self.run_block(f, st.body, env, record)
            for h in st.handlers:
                self.run_block(f, h.body, env, record)
            self.run_block(f, st.orelse, env, record)
            self.run_block(f, st.finalbody, env, record)
        elif isinstance(st, (ast.FunctionDef, ast.AsyncFunctionDef)):
            # nested function: analysed in place with the enclosing environment (run twice: it may be a generator loop)
            self.run_block(f, st.body, env, False)
            self.run_block(f, st.body, env, record)
        elif isinstance(st, ast.ClassDef):
            pass
        elif hasattr(ast, "Match") and isinstance(st, ast.Match):
            for c in st.cases:
                self.run_block(f, c.body, env, record)
        else:
            self.simple(f, st, env, record)

    def simple(self, f, st, env, record):
        """A statement (or expression) without nested statement blocks: sites first, then bindings."""
        if record:
            self.record_sites(f, st, env)
        for node in ast.walk(st):
            if isinstance(node, ast.Assign):
                r = self.root(f, env, node.value)
                for t in node.targets:
                    self.bind(f, env, t, r)
                    self.absorb(f, env, t, r)
            elif isinstance(node, ast.Call) and isinstance(node.func, ast.Attribute) and node.func.attr in (
                    "append", "extend", "insert", "update", "setdefault", "add", "appendleft"):
                vals = list(node.args)
                if node.func.attr in ("insert", "setdefault"):
                    vals = vals[1:]
                rs = [self.root(f, env, a) for a in vals] + [self.root(f, env, k.value) for k in node.keywords]
                if any(r != "fresh" for r in rs):
                    self.absorb(f, env, ast.Subscript(value=node.func.value, slice=ast.Name(id="_k")), "arg")
            elif isinstance(node, ast.AnnAssign) and node.value is not None:
                r = self.root(f, env, node.value)
                self.bind(f, env, node.target, r)
                self.absorb(f, env, node.target, r)
            elif isinstance(node, ast.NamedExpr):
                self.bind(f, env, node.target, self.root(f, env, node.value))
            elif isinstance(node, ast.Return) and node.value is not None:
                self.ret = join(self.ret, self.root(f, env, node.value))
            elif isinstance(node, (ast.Yield, ast.YieldFrom)) and node.value is not None:
                self.ret = join(self.ret, self.root(f, env, node.value))
        if True:
            # propagation of taint into callees (always, also in non-recording passes)
            for node in ast.walk(st):
                if isinstance(node, ast.Call):
                    self.propagate(f, node, env)

    def propagate(self, f, node, env):
        callees = self.pkg.resolve_call(f.module, node.func)
        for c in callees:
            params = list(c.params)
            if c.is_method and params and params[0] == "self":
                params = params[1:]
            for i, a in enumerate(node.args):
                if isinstance(a, ast.Starred):
                    continue
                ra = self.root(f, env, a)
                if ra in ("arg", "shallow") and i < len(params):
                    if params[i] not in c.tainted:
                        c.tainted.add(params[i])
                        self.changed = True
                if ra == "glob" and i < len(params):
                    if params[i] not in c.gtainted:
                        c.gtainted.add(params[i])
                        self.changed = True
            for k in node.keywords:
                rk = self.root(f, env, k.value)
                if k.arg and k.arg in params and rk in ("arg", "shallow"):
                    if k.arg not in c.tainted:
                        c.tainted.add(k.arg)
                        self.changed = True
                if k.arg and k.arg in params and rk == "glob":
                    if k.arg not in c.gtainted:
                        c.gtainted.add(k.arg)
                        self.changed = True

    def record_sites(self, f, st, env):
        for node in ast.walk(st):
            if isinstance(node, ast.Assign):
                for t in node.targets:
                    self.store(f, env, t, "store")
            elif isinstance(node, ast.AnnAssign) and node.value is not None:
                self.store(f, env, node.target, "store")
            elif isinstance(node, ast.AugAssign):
                if isinstance(node.target, ast.Name):
                    r = env.get(node.target.id, "fresh")
                    if r == "fresh" and self.is_global(f, node.target.id):
                        r = "glob"
                    if r in ("arg", "glob"):
                        self.site(f, "augassign", r, node.target, node)
                else:
                    self.store(f, env, node.target, "augassign")
            elif isinstance(node, ast.Delete):
                for t in node.targets:
                    self.store(f, env, t, "del")
            elif isinstance(node, ast.Global):
                for n in node.names:
                    self.sites.add(Site(f.module, f.qual, "global-stmt", "glob", n, node.lineno))
            elif isinstance(node, ast.Call):
                fn = node.func
                pg = fn.attr if isinstance(fn, ast.Attribute) else (fn.id if isinstance(fn, ast.Name) else None)
                if pg in PROCESS_GLOBAL_CALLS and not (
                        pg in ("simplefilter", "filterwarnings", "resetwarnings") and id(node) in self.cw_exempt):
                    if not (isinstance(fn, ast.Name) and self.pkg.resolve_call(f.module, fn)):
                        self.sites.add(Site(f.module, f.qual, "process-global:" + pg, "glob",
                                            ast.unparse(fn)[:120], node.lineno))
                if isinstance(fn, ast.Attribute) and fn.attr in MUTATORS and ast.unparse(fn.value).startswith(PROCESS_GLOBAL_OBJECTS):
                    self.sites.add(Site(f.module, f.qual, "process-global:" + fn.attr, "glob",
                                        ast.unparse(fn.value)[:120], node.lineno))
                if isinstance(fn, ast.Attribute):
                    recv = self.root(f, env, fn.value)
                    if fn.attr in MUTATORS and recv in ("arg", "glob"):
                        self.site(f, "mutcall:" + fn.attr, recv, fn.value, node)
                    if fn.attr in INPLACE_FUNCS and node.args:
                        r0 = self.root(f, env, node.args[0])
                        if r0 in ("arg", "glob"):
                            self.site(f, "inplace-func:" + fn.attr, r0, node.args[0], node)
                    if fn.attr == "at" and node.args:  # np.add.at(x, ...)
                        r0 = self.root(f, env, node.args[0])
                        if r0 in ("arg", "glob"):
                            self.site(f, "inplace-func:ufunc.at", r0, node.args[0], node)
                for k in node.keywords:
                    if k.arg == "out":
                        r = self.root(f, env, k.value)
                        if r in ("arg", "glob"):
                            self.site(f, "out-kw", r, k.value, node)

    def store(self, f, env, target, kind):
        if isinstance(target, (ast.Subscript, ast.Attribute)) and ast.unparse(target).startswith(PROCESS_GLOBAL_OBJECTS):
            self.site(f, "process-global:" + kind, "glob", target, target)
            return
        if isinstance(target, ast.Subscript):
            r = self.root(f, env, target.value)
            if r in ("arg", "glob"):
                self.site(f, kind + "-subscript", r, target, target)
        elif isinstance(target, ast.Attribute):
            r = self.root(f, env, target.value)
            if r in ("arg", "glob"):
                self.site(f, kind + "-attr", r, target, target)
        elif isinstance(target, (ast.Tuple, ast.List)):
            for t in target.elts:
                self.store(f, env, t, kind)
        elif isinstance(target, ast.Starred):
            self.store(f, env, target.value, kind)
        elif isinstance(target, ast.Name) and kind in ("store", "del"):
            pass

    def site(self, f, kind, r, expr, node):
        self.sites.add(Site(f.module, f.qual, kind, r, ast.unparse(expr)[:120], getattr(node, "lineno", 0)))


DATA_CLASSES = ("IOData", "MolecularOrbitals", "MolecularBasis", "Shell")


def summarize(repo: Path, seeds: list[tuple[str, str, str]], methods_tainted: bool = True):
    """Return (sites, reachable function keys).

    seeds: (module, qualname, parameter) triples whose parameter is argument-rooted.
    With ``methods_tainted`` every non-setter method / property getter of an iodata class is analysed
    with ``self`` tainted (any of them may be invoked on the argument object).
    """
    pkg = Package(repo)
    for m, q, p in seeds:
        pkg.funcs[(m, q)].tainted.add(p)
    if methods_tainted:
        for f in pkg.funcs.values():
            if (f.is_method and f.cls in DATA_CLASSES and not f.is_setter
                    and f.qual.split(".")[-1] not in ("__init__", "__attrs_post_init__")):
                if f.params and f.params[0] == "self":
                    f.tainted.add("self")
    an = Analyzer(pkg)
    for _ in range(30):
        an.changed = False
        an.sites = set()
        for f in pkg.funcs.values():
            an.analyze(f)
        if not an.changed:
            break
    return sorted(an.sites, key=lambda s: (s.module, s.func, s.line, s.kind, s.target)), pkg


DUMP_SEEDS = [("iodata.api", "dump_one", "data"), ("iodata.api", "dump_many", "iter_data"),
              ("iodata.api", "write_input", "data")]


def write_gen(ctx, repo):
    """T1: regenerate lean/Iodata/Gen/Effects.lean from the source under ``repo``."""
    from .engine import lean_str

    sites, pkg = summarize(Path(repo), DUMP_SEEDS)
    seen = set()
    rows = []
    for s in sites:
        key = (s.module, s.func, s.kind, s.target, s.root)
        if key in seen:
            continue
        seen.add(key)
        rows.append(
            f"  {{ module := {lean_str(s.module)}, func := {lean_str(s.func)}, kind := {lean_str(s.kind)}, "
            f"target := {lean_str(s.target)}, root := .{s.root} }}  -- line {s.line}"
        )
    nfun = len(pkg.funcs)
    ntainted = sum(1 for f in pkg.funcs.values() if f.tainted)
    text = (
        "import Iodata.Model.Effects\nnamespace Iodata.Gen.Effects\nopen Iodata.Effects\n\n"
        f"-- {nfun} functions analysed, {ntainted} with an argument-rooted parameter\n"
        "def sites : List Site := [\n" + ",\n".join(r.split("  --")[0] + "" for r in rows) + "\n]\n\n"
        f"def functionsAnalysed : Nat := {nfun}\n"
        "end Iodata.Gen.Effects\n"
    )
    ctx.gen_write("Effects", text)
    return sites, pkg
