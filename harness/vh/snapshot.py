"""Deep snapshots of iodata objects (array bytes, dict contents, member identities, derived properties)."""

from __future__ import annotations

import attrs
import numpy as np

IODATA_PROPS = ("atcorenums", "charge", "nelec", "spinpol", "natom")
MO_PROPS = ("norba", "norbb", "norb", "nelec", "spinpol", "occsa", "occsb", "coeffsa", "coeffsb", "energiesa",
            "energiesb", "irrepsa", "irrepsb")
BASIS_PROPS = ("nbasis",)


def snap(x, props=True):
    """Canonical, comparable (==) description of everything reachable from x."""
    if isinstance(x, np.ndarray):
        if x.dtype == object:
            return ("nd-object", x.shape, tuple(snap(e, props) for e in x.ravel().tolist()))
        return ("nd", str(x.dtype), x.shape, x.tobytes())
    if isinstance(x, np.generic):
        return ("npscalar", str(x.dtype), x.tobytes())
    if isinstance(x, dict):
        return ("dict", tuple((repr(k), snap(v, props)) for k, v in x.items()))
    if isinstance(x, (list, tuple)):
        return (type(x).__name__, tuple(snap(e, props) for e in x))
    if isinstance(x, (set, frozenset)):
        return ("set", tuple(sorted(repr(e) for e in x)))
    if attrs.has(type(x)):
        out = [("field:" + a.name, snap(getattr(x, a.name), props)) for a in attrs.fields(type(x))]
        if props:
            names = {"IOData": IODATA_PROPS, "MolecularOrbitals": MO_PROPS, "MolecularBasis": BASIS_PROPS}.get(
                type(x).__name__, ())
            for n in names:
                try:
                    v = getattr(x, n)
                except Exception as exc:  # e.g. NotImplementedError for generalized orbitals
                    v = "raises:" + type(exc).__name__
                out.append(("prop:" + n, snap(v, props)))
        return ("attrs:" + type(x).__name__, tuple(out))
    return ("py", type(x).__name__, repr(x))


def ids(x, path="", out=None, seen=None):
    """Identities of every container / array reachable through fields (not derived properties)."""
    if out is None:
        out, seen = {}, set()
    if id(x) in seen:
        return out
    if isinstance(x, np.ndarray):
        out[path] = id(x)
        return out
    if isinstance(x, dict):
        seen.add(id(x))
        out[path] = id(x)
        for k, v in x.items():
            ids(v, f"{path}[{k!r}]", out, seen)
    elif isinstance(x, (list, tuple)):
        seen.add(id(x))
        out[path] = id(x)
        for i, v in enumerate(x):
            ids(v, f"{path}[{i}]", out, seen)
    elif attrs.has(type(x)):
        seen.add(id(x))
        out[path] = id(x)
        for a in attrs.fields(type(x)):
            ids(getattr(x, a.name), f"{path}.{a.name}", out, seen)
    return out


def first_diff(a, b, path=""):
    """Path of the first difference between two snapshots (for signatures / messages)."""
    if a == b:
        return None
    if type(a) is not type(b) or not isinstance(a, tuple) or len(a) != len(b) or a[0] != b[0]:
        return path or "<root>"
    tag = a[0]
    if tag == "dict" or (isinstance(tag, str) and tag.startswith("attrs:")):
        ka = [k for k, _ in a[1]]
        kb = [k for k, _ in b[1]]
        if ka != kb:
            return path + ":keys"
        for (k, va), (_, vb) in zip(a[1], b[1]):
            d = first_diff(va, vb, f"{path}/{k}")
            if d:
                return d
    if tag in ("list", "tuple", "nd-object"):
        seq_a, seq_b = a[-1], b[-1]
        if len(seq_a) != len(seq_b):
            return path + ":len"
        for i, (va, vb) in enumerate(zip(seq_a, seq_b)):
            d = first_diff(va, vb, f"{path}[{i}]")
            if d:
                return d
    return path or "<root>"
