#!/venv/bin/python
"""Regenerate harness/vh/props/_tokenmaps.json (token -> attribute maps of the log-parser fixtures) from IODATA_REPO or /repo.

Run after a reviewed change of a log parser or of a fixture; the diff of the JSON file shows which tokens moved to which
attribute elements and with which unit."""
import json
import os
import sys

sys.dont_write_bytecode = True
HERE = os.path.dirname(os.path.abspath(__file__))
sys.path.insert(0, HERE)
if os.environ.get("IODATA_REPO"):
    sys.path.insert(0, os.environ["IODATA_REPO"])
from vh.props import _tokens  # noqa: E402

maps = _tokens.build_maps()
with open(_tokens.MAPFILE, "w") as fh:
    json.dump(maps, fh, indent=0, sort_keys=True)
    fh.write("\n")
for k, v in sorted(maps.items()):
    if not v.get("loads"):
        print(f"{k}: not loadable ({v.get('error')})")
        continue
    outs = {}
    for e in v["entries"].values():
        outs[e["out"]] = outs.get(e["out"], 0) + 1
    print(f"{k}: {v['ntokens']} numeric tokens, examined {len(v['entries'])}: {outs}")
