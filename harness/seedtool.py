#!/usr/bin/env python3
"""Verify a seeded property-breaking change and record it under /verif/seeded/<ID>-<k>/.

usage: seedtool.py <ID> <k> [--src /tmp/seed/<ID>/out/<k>] [--no-tests] [--check-only]

Steps (all in a scratch worktree of /repo outside /repo and /verif, removed afterwards):
  1. the patch applies to /repo's HEAD;
  2. the demonstration passes on the unchanged tree and fails on the changed tree;
  3. the existing test suite (iodata directory) still passes on the changed tree;
  4. `IODATA_REPO=<scratch> bin/check <ID>` is run and its verdict recorded.
"""
import argparse
import json
import os
import re
import shutil
import subprocess
import sys
import time

ROOT = os.path.dirname(os.path.dirname(os.path.abspath(__file__)))


def sh(cmd, **kw):
    return subprocess.run(cmd, shell=True, capture_output=True, text=True, **kw)


def main():
    ap = argparse.ArgumentParser()
    ap.add_argument("pid")
    ap.add_argument("k")
    ap.add_argument("--src")
    ap.add_argument("--no-tests", action="store_true")
    ap.add_argument("--check-only", action="store_true", help="re-run only step 4 for an already recorded seed")
    ap.add_argument("--tier", default="quick")
    a = ap.parse_args()
    dest = os.path.join(ROOT, "seeded", f"{a.pid}-{a.k}")
    src = a.src or (dest if a.check_only else f"/tmp/seed/{a.pid}/out/{a.k}")
    patch = os.path.join(src, "patch.diff")
    demo = os.path.join(src, "demo.py")
    scratch = f"/tmp/mut/{a.pid}_{a.k}_{os.getpid()}"
    os.makedirs("/tmp/mut", exist_ok=True)
    r = sh(f"git -C /repo worktree add --detach {scratch} HEAD")
    if r.returncode:
        print(r.stderr)
        sys.exit(2)
    rec = {"property": a.pid, "seed": a.k, "verified_at": time.strftime("%Y-%m-%d %H:%M:%S")}
    try:
        r = sh(f"git -C {scratch} apply {patch}")
        rec["patch_applies"] = r.returncode == 0
        if r.returncode:
            print("patch does not apply:", r.stderr)
            sys.exit(2)
        if not a.check_only:
            r0 = sh(f"PYTHONPATH=/repo /venv/bin/python {demo}", cwd="/tmp")
            r1 = sh(f"PYTHONPATH={scratch} /venv/bin/python {demo}", cwd="/tmp")
            rec["demo_on_unchanged_exit"] = r0.returncode
            rec["demo_on_changed_exit"] = r1.returncode
            rec["demo_on_changed_tail"] = (r1.stdout + r1.stderr)[-600:]
            print(f"demo: unchanged exit {r0.returncode}, changed exit {r1.returncode}")
            if not a.no_tests:
                t = sh(f"cd {scratch} && PYTHONPATH={scratch} /venv/bin/python -m pytest -q -p no:cacheprovider "
                       f"--timeout=900 --continue-on-collection-errors -n 10 iodata 2>&1 | tail -3")
                rec["tests_tail"] = t.stdout.strip()[-300:]
                m = re.search(r"(\d+) passed", t.stdout)
                rec["tests_passed"] = int(m.group(1)) if m else None
                rec["tests_failed"] = "failed" in t.stdout
                print("tests:", rec["tests_tail"].splitlines()[-1] if rec["tests_tail"] else "?")
        env = dict(os.environ, IODATA_REPO=scratch)
        # the evidence file must keep describing the unchanged tree: save it and put it back afterwards
        ev_path = os.path.join(ROOT, "evidence", f"{a.pid}.json")
        ev_saved = open(ev_path).read() if os.path.exists(ev_path) else None
        t0 = time.time()
        c = subprocess.run([os.path.join(ROOT, "bin", "check"), a.pid, "--tier", a.tier], capture_output=True, text=True,
                           env=env, cwd=ROOT)
        out = c.stdout + c.stderr
        rec["check_cmd"] = f"IODATA_REPO=<scratch with patch> bin/check {a.pid} --tier {a.tier}"
        rec["check_exit"] = c.returncode
        rec["check_wall_s"] = round(time.time() - t0, 1)
        rec["check_violation_lines"] = [l for l in out.splitlines() if l.startswith("VIOLATION")][:5]
        rec["check_tail"] = out[-1500:]
        rec["detected"] = c.returncode == 1
        print(f"check exit {c.returncode}: {rec['check_violation_lines'][:2]}")
        # copy the first replay for the record
        for l in rec["check_violation_lines"][:1]:
            m = re.search(r"replay=(\S+)", l)
            if m and os.path.exists(os.path.join(ROOT, m.group(1))):
                try:
                    rec["first_replay"] = json.load(open(os.path.join(ROOT, m.group(1))))
                    rec["first_replay"].pop("input", None) if len(json.dumps(rec["first_replay"])) > 4000 else None
                except Exception:
                    pass
    finally:
        sh(f"git -C /repo worktree remove --force {scratch}")
        shutil.rmtree(scratch, ignore_errors=True)
        # Gen files now describe the scratch tree: restore the committed snapshot
        sh(f"git -C {ROOT} checkout -- lean/Iodata/Gen")
        try:
            if ev_saved is not None:
                open(ev_path, "w").write(ev_saved)
        except NameError:
            pass
    os.makedirs(dest, exist_ok=True)
    if os.path.abspath(src) != os.path.abspath(dest):
        shutil.copy(patch, os.path.join(dest, "patch.diff"))
        shutil.copy(demo, os.path.join(dest, "demo.py"))
    meta = {}
    if os.path.exists(os.path.join(src, "meta.json")):
        try:
            meta = json.load(open(os.path.join(src, "meta.json")))
        except Exception:
            meta = {}
    meta.setdefault("property", a.pid)
    old = meta.get("verification", {})
    old.update(rec)
    meta["verification"] = old
    json.dump(meta, open(os.path.join(dest, "meta.json"), "w"), indent=1)
    print("recorded in", dest, "detected =", rec.get("detected"))


if __name__ == "__main__":
    main()
